/-
  C01 for the yearly filler, part 2 (layer L2): the candidate set of a year is exactly the set of days the
  specification's `YearlyInst` allows, branch by branch: here the branches without BYWEEKNO and BYYEARDAY
  (`ylyCand_iff_A`, `_B`, `_D`; `lim_cand` is not reached), the others and `ylyCand_iff` in RrYlyRfc2b.
-/
import Echse.Lemmas.RrYlyRfc1
set_option linter.unusedSimpArgs false
namespace Echse.Lemmas.RrYlyRfc
open Echse.Rrule Echse.Instant Echse.Spec.RrOk Echse.Lemmas.RrCandOk Echse.Spec.Rfc Echse.Lemmas.RrRfc
open Echse.Lemmas.RrCandRfc Echse.Lemmas.RrYlyOk Echse.Spec.Cal Echse.Spec.RuleExt Echse.Lemmas.RrMlyRfc

/-- the candidate set of a year before `lim_cand` for a date, with what the filler sets up filled in -/
theorem ylyCand1_date (r : Rule) (p : Inst) (nti : Nat) (hr : WfRule r) (hp : WfInst p) (hs : YlySup r)
    (x : Inst) (hx : DateIn x) (ms : List Nat) (ds pdow : List Int)
    (hms : ms = (if r.mon = [] ∧ r.wk = [] ∧ r.dow = [] ∧ r.doy = [] ∧ r.dom = [] then [p.m] else r.mon))
    (hds : ds = (if r.dom = [] ∧ r.wk = [] ∧ r.dow = [] ∧ r.doy = [] then [(p.d : Int)] else r.dom))
    (hpd : pdow = (if r.dow = [] ∧ r.wk ≠ [] ∧ r.dom = [] ∧ r.doy = [] then
      [(ymdGetWday p.y p.m p.d : Int)] else [])) :
    packCand x.m x.d ∈ ylyCand1 (ylyCtxOf r p nti) x.y ↔
      (((if wdMaskOf r.dow ≠ 0 ∧ (ds.length ≠ 0 ∨ (!r.doy.isEmpty) = true) then False
         else if wdMaskOf r.dow ≠ 0 ∧ (!r.wk.isEmpty) = true then packCand x.m x.d ∈ fillYlyYwd [] x.y r.wk r.dow
         else if (!pdow.isEmpty) = true then packCand x.m x.d ∈ fillYlyYwd [] x.y r.wk pdow
         else if wdMaskOf r.dow ≠ 0 ∧ ms.length ≠ 0 then x.m ∈ ms ∧ bydayInMonth r x
         else if wdMaskOf r.dow ≠ 0 then bydayInYear r x
         else False) ∨ (YdaySel r.doy x ∧ DLim r (wdMaskOf r.dow) x (decide (ms.length > 0)))) ∨
      (if ms.length = 0 ∧ ds.length = 0 then False
       else if ms.length = 0 then MdaySel ds x ∧ DLim r (wdMaskOf r.dow) x false
       else if ds.length = 0 then x.m ∈ ms ∧ WLim0 (wdMaskOf r.dow) x
       else x.m ∈ ms ∧ MdaySel ds x ∧ DLim r (wdMaskOf r.dow) x true)) := by
  obtain ⟨f1, f2, f3, f4, f5⟩ := ylyCtx_fields r p nti hs hp
  have h1 := ylyCand1_mem (ylyCtxOf r p nti) (by rw [f1]; exact hs.easter) x hx (ylyCtxOf_ms r p nti hr hp)
    (ylyCtxOf_ds r p nti hr hp) (by rw [f1]; exact hr.doy)
  have h2 := ylyCand0_mem (ylyCtxOf r p nti) x hx (by rw [f1]; exact hr) (by rw [f1]; exact hs.ord)
    (ylyCtxOf_ms r p nti hr hp) (by rw [f1, f2])
  rw [h2] at h1
  rw [f1, f2, f3, f4, f5, ← hms, ← hds, ← hpd] at h1
  exact h1

/-- … and `lim_cand` on top -/
theorem ylyCand_date (r : Rule) (p : Inst) (nti : Nat) (hr : WfRule r) (hp : WfInst p) (hs : YlySup r)
    (x : Inst) (hx : DateIn x) (pdow : List Int)
    (hpd : pdow = (if r.dow = [] ∧ r.wk ≠ [] ∧ r.dom = [] ∧ r.doy = [] then
      [(ymdGetWday p.y p.m p.d : Int)] else [])) :
    packCand x.m x.d ∈ ylyCand (ylyCtxOf r p nti) x.y ↔
      (if r.wk ≠ [] ∨ r.doy ≠ [] then
        packCand x.m x.d ∈ ylyCand1 (ylyCtxOf r p nti) x.y ∧ monthOk r x ∧ (r.dom = [] ∨ MdaySel r.dom x) ∧
          (r.doy = [] ∨ YdaySel r.doy x) ∧ (r.wk = [] ∨ (PdowOk pdow x ∧ weeknoOk r x))
       else packCand x.m x.d ∈ ylyCand1 (ylyCtxOf r p nti) x.y) := by
  obtain ⟨f1, f2, f3, f4, f5⟩ := ylyCtx_fields r p nti hs hp
  have h := ylyCand_lim (ylyCtxOf r p nti) (by rw [f1]; exact hs.easter) x hx (by rw [f1]; exact hr.wk)
  rw [f1, f5, ← hpd] at h
  exact h

theorem ylyCand_nolim (r : Rule) (p : Inst) (nti : Nat) (hr : WfRule r) (hp : WfInst p) (hs : YlySup r)
    (x : Inst) (hx : DateIn x) (h1 : r.wk = []) (h2 : r.doy = []) :
    packCand x.m x.d ∈ ylyCand (ylyCtxOf r p nti) x.y ↔ packCand x.m x.d ∈ ylyCand1 (ylyCtxOf r p nti) x.y := by
  rw [ylyCand_date r p nti hr hp hs x hx _ rfl, if_neg (by simp [h1, h2])]

theorem wm_nil : wdMaskOf ([] : List Int) = 0 := rfl

theorem dlim_zero (r : Rule) (x : Inst) (mp : Bool) : DLim r 0 x mp := Or.inl rfl
theorem wlim0_zero (x : Inst) : WLim0 0 x := Or.inl rfl

/-- no date part at all, or BYMONTH alone: DTSTART's day (and month) -/
theorem ylyCand_iff_A (r : Rule) (p : Inst) (nti : Nat) (hr : WfRule r) (hp : WfInst p) (hs : YlySup r)
    (x : Inst) (hx : DateIn x) (h1 : r.wk = []) (h2 : r.doy = []) (h3 : r.dow = []) (h4 : r.dom = []) :
    packCand x.m x.d ∈ ylyCand (ylyCtxOf r p nti) x.y ↔ YlyDate r p x := by
  have hpd := hp.day.1
  rw [ylyCand_nolim r p nti hr hp hs x hx h1 h2,
    ylyCand1_date r p nti hr hp hs x hx (if r.mon = [] then [p.m] else r.mon) [(p.d : Int)] []
    (by simp [h1, h2, h3, h4]) (by simp [h1, h2, h3, h4]) (by simp [h1, h3])]
  unfold YlyDate
  simp only [h1, h2, h3, h4, wm_nil, ne_eq, not_true_eq_false, false_and, if_false, List.isEmpty_nil, Bool.not_true,
    Bool.false_eq_true, and_self, if_true, true_or, true_and, and_true, List.length_cons, List.length_nil,
    Nat.succ_ne_zero, and_false, false_or, or_false, dlim_zero, mdayOk, ydayOk, ydaySel_nil,
    mdaySel_seed p x hpd]
  by_cases c : r.mon = []
  · simp [c, monthOk]
    constructor
    · rintro ⟨a, b⟩; exact ⟨b, a⟩
    · rintro ⟨a, b⟩; exact ⟨b, a⟩
  · have hl : r.mon.length ≠ 0 := fun e => c (List.length_eq_zero_iff.mp e)
    simp [c, monthOk, hl]

theorem len_ne {α : Type} (l : List α) (h : l ≠ []) : l.length ≠ 0 := fun e => h (List.length_eq_zero_iff.mp e)

theorem wm_zero_iff (r : Rule) : wdMaskOf r.dow = 0 ↔ r.dow = [] := by
  constructor
  · intro h
    apply Classical.byContradiction; intro c
    exact (wdMask_ne_zero r).2 c h
  · intro h; rw [h]; rfl

/-- BYMONTHDAY, with or without BYMONTH; BYDAY limits (numbered entries count within the month / the year) -/
theorem ylyCand_iff_B (r : Rule) (p : Inst) (nti : Nat) (hr : WfRule r) (hp : WfInst p) (hs : YlySup r)
    (x : Inst) (hx : DateIn x) (h1 : r.wk = []) (h2 : r.doy = []) (h4 : r.dom ≠ []) :
    packCand x.m x.d ∈ ylyCand (ylyCtxOf r p nti) x.y ↔ YlyDate r p x := by
  rw [ylyCand_nolim r p nti hr hp hs x hx h1 h2, ylyCand1_date r p nti hr hp hs x hx r.mon r.dom []
    (by simp [h4]) (by simp [h4]) (by simp [h1])]
  unfold YlyDate
  have hl := len_ne _ h4
  simp only [h1, h2, hl, ne_eq, not_true_eq_false, not_false_eq_true, true_or, and_true, List.isEmpty_nil,
    Bool.not_true, Bool.false_eq_true, and_false, if_false, ydaySel_nil, false_and, or_false, false_or,
    mdaySel_iff r x h4, dlim_iff r hr hs.ord x hx, true_and, ydayOk, h4, or_true, if_true]
  by_cases cd : r.dow = []
  · simp only [cd, wm_nil, not_true_eq_false, if_false, true_or, and_true, monthOk, false_and, false_or]
    by_cases cm : r.mon = []
    · simp [cm]
    · simp [cm, len_ne _ cm]
  · have cw : wdMaskOf r.dow ≠ 0 := (wdMask_ne_zero r).2 cd
    simp only [cw, cd, not_false_eq_true, if_true, false_or, monthOk]
    by_cases cm : r.mon = []
    · simp [cm]
    · simp [cm, len_ne _ cm]

/-- BYDAY within the year, or within the months of BYMONTH -/
theorem ylyCand_iff_D (r : Rule) (p : Inst) (nti : Nat) (hr : WfRule r) (hp : WfInst p) (hs : YlySup r)
    (x : Inst) (hx : DateIn x) (h1 : r.wk = []) (h2 : r.doy = []) (h4 : r.dom = []) (h3 : r.dow ≠ []) :
    packCand x.m x.d ∈ ylyCand (ylyCtxOf r p nti) x.y ↔ YlyDate r p x := by
  rw [ylyCand_nolim r p nti hr hp hs x hx h1 h2, ylyCand1_date r p nti hr hp hs x hx r.mon [] []
    (by simp [h3]) (by simp [h3, h4]) (by simp [h1])]
  unfold YlyDate
  have cw : wdMaskOf r.dow ≠ 0 := (wdMask_ne_zero r).2 h3
  have hwdr := wdayOf_range (dayOf x)
  have hw0 : WLim0 (wdMaskOf r.dow) x → bydayInMonth r x := by
    rintro (h | h)
    · exact absurd h cw
    · obtain ⟨t, ht, a1, a2⟩ := (mask_bit_iff r hr _ hwdr).1 h
      exact ⟨t, ht, a2, Or.inl a1⟩
  simp only [h1, h2, h4, h3, cw, ne_eq, not_true_eq_false, not_false_eq_true, true_or, or_true, and_true,
    List.isEmpty_nil, Bool.not_true, Bool.false_eq_true, and_false, if_false, false_and, or_false, List.length_nil,
    and_self, if_true, ydaySel_nil, true_and, mdayOk, ydayOk, or_self]
  by_cases cm : r.mon = []
  · simp [cm, monthOk]
  · have hl := len_ne _ cm
    simp only [hl, cm, not_false_eq_true, if_true, if_false, monthOk, false_or, false_and]
    constructor
    · rintro (h | ⟨h, hw⟩)
      · exact h
      · exact ⟨h, hw0 hw⟩
    · intro h; exact Or.inl h

end Echse.Lemmas.RrYlyRfc
