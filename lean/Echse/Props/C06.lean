import Echse.Model.Daemon
namespace C06
open Echse.Daemon

/-- smoke (general statements replace this): a checkpoint cut before the rename leaves the live file as it was -/
theorem cut_before_rename_keeps_old :
    (chkpnt { me := 0, dirty := [1001], files := [(1001, [])],
              tasks := [{ sid := 0, uid := "j", owner := 1001, occ := [5], dur := 0, maxSimul := 63 }] }
            (some { u := 1001, afterRename := false })).files.map (fun f => (f.1, f.2.map DTask.uid)) = [(1001, [])] := by decide

end C06
