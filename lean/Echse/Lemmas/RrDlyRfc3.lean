/-
  C01 for the daily filler, part 3: the day loop's tests are the specification's `DateOk`; the call of the day loop that
  `fillDly` makes when it does not hand over to the weekly filler.
-/
import Echse.Lemmas.RrDlyRfc2
namespace Echse.Lemmas.RrRfc
open Echse.Rrule Echse.Instant Echse.Spec.RrOk Echse.Spec.Cal Echse.Spec.RuleExt Echse.Spec.Rfc
open Echse.Lemmas.RrOkBase

/-- the weekday mask of the day loop -/
def dlyWd (r : Rule) : Nat := if wdMaskOf r.dow / 2 = 0 then wdMaskOf r.dow ||| 0b11111110 else wdMaskOf r.dow

/-- the context of the day loop -/
abbrev dctx (r : Rule) (p : Inst) (nti : Nat) : DlyCtx :=
  mkDCtx r p nti (dlyWd r) (domMasks r.dom).1 (domMasks r.dom).2

theorem decide_and_shl (a k : Nat) : decide (a &&& (1 <<< k) = 0) = !bit a k := by
  cases hb : bit a k with
  | false => simp [(and_shl_eq_zero a k).2 hb]
  | true =>
    have : ¬ (a &&& (1 <<< k) = 0) := fun h => by rw [(and_shl_eq_zero a k).1 h] at hb; cases hb
    simp [this]

/-- the three tests of the day loop are BYDAY, BYMONTH and BYMONTHDAY as limits -/
theorem dlySkipDay_iff (r : Rule) (p : Inst) (nti : Nat) (hr : WfRule r) {y m d w : Nat} (hv : VD y m d) (h1 : 1 ≤ w)
    (h7 : w ≤ 7) :
    dlySkipDay (dctx r p nti) m d w (getNdom y m) = false ↔
      ((plainDays r = [] ∨ (w : Int) ∈ plainDays r) ∧ (r.mon = [] ∨ m ∈ r.mon) ∧
       (r.dom = [] ∨ ∃ n ∈ r.dom, (0 < n ∧ n = (d : Int)) ∨ (n < 0 ∧ (getNdom y m : Int) + 1 + n = d))) := by
  have hb := ndom_bounds y m hv.1 hv.2.1
  have hd := hv.2.2.2
  have hd1 := hv.2.2.1
  have a := dlyWdMask_bit r w h1 h7
  have b := monMask_bit r.mon hr.mon.2 m hv.1 hv.2.1
  have c := domMasks_pass r.dom hr.dom d (getNdom y m) hd1 hd (by omega)
  rw [← a, ← b, ← c]
  have e1 : shl1 d = 1 <<< d := by unfold shl1; rw [Nat.mod_eq_of_lt (by omega)]
  have e2 : shl1 ((getNdom y m + u32 - d) % u32) = 1 <<< (getNdom y m - d) := by
    have : (getNdom y m + u32 - d) % u32 = getNdom y m - d := by unfold u32; omega
    rw [this]; unfold shl1; rw [Nat.mod_eq_of_lt (by omega)]
  unfold dlySkipDay
  show (!bit (dlyWd r) w || !bit (monMask r.mon) m ||
    (decide ((domMasks r.dom).1 &&& shl1 d = 0) && decide ((domMasks r.dom).2 &&& shl1 ((getNdom y m + u32 - d) % u32) = 0)))
      = false ↔ _
  rw [e1, e2, decide_and_shl, decide_and_shl]
  unfold dlyWd
  generalize bit (if wdMaskOf r.dow / 2 = 0 then wdMaskOf r.dow ||| 254 else wdMaskOf r.dow) w = A
  generalize bit (monMask r.mon) m = B
  generalize bit (domMasks r.dom).1 d = C
  generalize bit (domMasks r.dom).2 (getNdom y m - d) = D
  cases A <;> cases B <;> cases C <;> cases D <;> simp

/-- the daily filler hands over to the weekly one (evrrul.c:1694-1700) -/
def Handover (r : Rule) : Prop :=
  wdMaskOf r.dow / 2 ≠ 0 ∧ r.inter % u32 = 1 ∧ r.dom.isEmpty = true ∧ (!(!r.pos.isEmpty)) = true

theorem fillDly_nh (r : Rule) (p : Inst) (n nti : Nat) (hr : WfRule r) (hp : WfInst p) (hcap : capNti r n = some nti)
    (hh : ¬ Handover r) :
    fillDly r p n = (dlyLoop (dctx r p nti) (wlyDlyFuel p.y nti) p.y p.m p.d (ymdGetWday p.y p.m p.d)
      (getNdom p.y p.m) []).map List.reverse := by
  unfold fillDly
  have hy := hp.year
  have hm := hp.month
  have hd := hp.day
  have hb := ndom_bounds p.y p.m hm.1 hm.2
  rw [if_neg (by rw [hr.scale]; omega)]
  simp only [hcap]
  rw [if_neg (by omega)]
  unfold Handover at hh
  rw [if_neg hh]
  rfl

theorem fillDly_ho (r : Rule) (p : Inst) (n nti : Nat) (hr : WfRule r) (hp : WfInst p) (hcap : capNti r n = some nti)
    (hh : Handover r) : fillDly r p n = fillWly r p nti := by
  unfold fillDly
  have hy := hp.year
  have hm := hp.month
  have hd := hp.day
  have hb := ndom_bounds p.y p.m hm.1 hm.2
  rw [if_neg (by rw [hr.scale]; omega)]
  simp only [hcap]
  rw [if_neg (by omega)]
  unfold Handover at hh
  rw [if_pos hh]

theorem fillDly_none (r : Rule) (p : Inst) (n : Nat) (hr : WfRule r) (hp : WfInst p) (hcap : capNti r n = none) :
    fillDly r p n = some [] := by
  unfold fillDly
  have hy := hp.year
  rw [if_neg (by rw [hr.scale]; omega)]
  simp only [hcap]

end Echse.Lemmas.RrRfc
