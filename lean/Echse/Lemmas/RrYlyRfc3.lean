/-
  C01 for the yearly filler, part 3: what the period of a year offers (`yE`, `mem_yE_iff`), and the year loop's
  positions and lists as the abstract loop wants them (`yly_loopHyp`).
-/
import Echse.Lemmas.RrYlyRfc2b
import Echse.Lemmas.RrMlyRfc5
import Echse.Lemmas.RrCandRfc11
namespace Echse.Lemmas.RrYlyRfc
open Echse.Rrule Echse.Instant Echse.Spec.RrOk Echse.Lemmas.RrCandOk Echse.Spec.Rfc Echse.Lemmas.RrRfc
open Echse.Lemmas.RrCandRfc Echse.Lemmas.RrYlyOk Echse.Spec.Cal Echse.Spec.RuleExt Echse.Lemmas.RrMlyRfc
open Echse.Lemmas.RrOkBase

/-- what the period of year `y` offers -/
def yE (r : Rule) (p : Inst) (nti : Nat) (y : Nat) : List Inst :=
  setE (mkFillCtx r p nti) y (ylyCand (ylyCtxOf r p nti) y)

theorem ylyCand_allVC (r : Rule) (p : Inst) (nti : Nat) (hr : WfRule r) (hp : WfInst p) (y : Nat) :
    AllVC y (ylyCand (ylyCtxOf r p nti) y) := by
  apply ylyCand_ok _ y (ylyCtxOf_ms r p nti hr hp) (ylyCtxOf_ds r p nti hr hp)
  · intro t ht; have := hr.dow t ht; rw [ylyCtxOf_r] at ht; have := hr.dow t ht; omega
  · intro d hd; rw [ylyCtxOf_r] at hd; have := hr.doy d hd; omega

/-- the year's list holds exactly the instants of that year on a day the rule allows at a time of the enumeration -/
theorem mem_yE_iff (r : Rule) (p : Inst) (nti : Nat) (hr : WfRule r) (hp : WfInst p) (hs : YlySup r) (hy : 1901 ≤ p.y)
    (y : Nat) (hy2 : 1901 ≤ y ∧ y ≤ 2099) (z : Inst) :
    z ∈ yE r p nti y ↔ z.y = y ∧ 1 ≤ z.m ∧ z.m ≤ 12 ∧ 1 ≤ z.d ∧ z.d ≤ monthLen z.y z.m ∧ YlyDate r p z ∧
      z.ms = p.ms ∧ z.H ∈ (makeEnum p r).H ∧ z.M ∈ (makeEnum p r).M ∧ z.S ∈ (makeEnum p r).S := by
  unfold yE
  constructor
  · intro h
    obtain ⟨c, hc, t, ht, e⟩ := mem_setE _ _ _ _ h
    have hvc := (ylyCand_allVC r p nti hr hp y).1 c hc
    have s1 := VC_unpack y c hvc
    unfold VC at hvc
    have hm' : 1 ≤ c / 32 + 1 ∧ c / 32 + 1 ≤ 12 := by omega
    have hd31 : c % 32 ≤ 31 := by omega
    rw [s1, mkX_fields r p nti hr hp y (c / 32 + 1) (c % 32) t hy2.2 hm' hd31 ht] at e
    have hmt := mem_times _ t ht
    have hml : c % 32 ≤ monthLen y (c / 32 + 1) := by
      rw [← ndom_eq hm'.1 hm'.2 (Or.inl (by omega)) hy2.2]; exact hvc.2.2
    have hx : DateIn z := by
      rw [e]; exact ⟨⟨hm'.1, hm'.2, hvc.2.1, hml⟩, hy2.1, hy2.2⟩
    have hiff := ylyCand_iff r p nti hr hp hs hy z hx
    rw [e] at hiff ⊢
    dsimp only at hiff ⊢
    rw [← s1] at hiff
    exact ⟨rfl, hm'.1, hm'.2, hvc.2.1, hml, hiff.1 hc, rfl, hmt.1, hmt.2.1, hmt.2.2⟩
  · rintro ⟨e1, e2, e2', e3, e4, e5, e6, e7, e8, e9⟩
    have hx : DateIn z := ⟨⟨e2, e2', e3, e4⟩, by omega, by omega⟩
    have hc := (ylyCand_iff r p nti hr hp hs hy z hx).2 e5
    rw [e1] at hc
    have ht : (z.H, z.M, z.S) ∈ (makeEnum p r).times := (mem_times_iff _ _ _ _).2 ⟨e7, e8, e9⟩
    unfold setE dayE
    refine List.mem_flatMap.mpr ⟨_, hc, List.mem_map.mpr ⟨(z.H, z.M, z.S), ht, ?_⟩⟩
    rw [mkX_fields r p nti hr hp y z.m z.d _ hy2.2 ⟨e2, e2'⟩ hx.v.d31 ht, ← e1, ← e6]

/-- positions the year loop can be at: on the grid of every INTERVAL-th year from the seed's -/
def yReach (r : Rule) (p : Inst) (y : Nat) : Prop := ∃ j : Nat, y = p.y + j * r.inter
def yG (r : Rule) (p : Inst) (y : Nat) : Nat := (y - p.y) / r.inter
def yGi (r : Rule) (p x : Inst) : Nat := (x.y - p.y) / r.inter

theorem yG_of (r : Rule) (p : Inst) (y j : Nat) (hi : 0 < r.inter) (h : y = p.y + j * r.inter) : yG r p y = j := by
  unfold yG; rw [h]; exact grid_div _ _ _ hi

theorem yE_year (r : Rule) (p : Inst) (nti : Nat) (hr : WfRule r) (hp : WfInst p) (hs : YlySup r) (hy : 1901 ≤ p.y)
    (y : Nat) (hq : yReach r p y) (hy2 : y ≤ 2099) (z : Inst) (hz : z ∈ yE r p nti y) :
    z.y = y := by
  obtain ⟨j, hj⟩ := hq
  have : 0 ≤ j * r.inter := Nat.zero_le _
  exact ((mem_yE_iff r p nti hr hp hs hy y ⟨by omega, hy2⟩ z).1 hz).1

theorem yly_loopHyp (r : Rule) (p : Inst) (nti : Nat) (hr : WfRule r) (hp : WfInst p) (hs : YlySup r)
    (hy : 1901 ≤ p.y) :
    LoopHyp (fun y : Nat => y) (yE r p nti) (fun y => (y + r.inter) % u32) (yReach r p) (yG r p) (fun y => y) 2099 := by
  have hi := hr.inter
  refine ⟨?_, ?_, ?_, ?_⟩
  · intro y hq hy2
    obtain ⟨j, hj⟩ := hq
    have hy2 : y ≤ 2099 := hy2
    have e : (y + r.inter) % u32 = y + r.inter := by unfold u32; omega
    rw [e]
    have hg : y + r.inter = p.y + (j + 1) * r.inter := by rw [Nat.add_mul, hj]; omega
    refine ⟨⟨j + 1, hg⟩, ?_, by omega⟩
    rw [yG_of r p y j (by omega) hj, yG_of r p _ (j + 1) (by omega) hg]; omega
  · intro y _ hb; exact hb
  · intro y hq hy2
    have hy2 : y ≤ 2099 := hy2
    have hc := ylyCand_allVC r p nti hr hp y
    unfold yE
    exact setE_sorted _ y _ (by omega) hc.2 (fun c h => (hc.1 c h).1) (mkFillCtx_times_sorted r p nti hr)
      (times_lt60 r p hr hp)
  · intro q q' hq hq' hy1 hy2 hg a ha b hb
    have hy1 : q ≤ 2099 := hy1
    have hy2 : q' ≤ 2099 := hy2
    have fa := yE_year r p nti hr hp hs hy q hq hy1 a ha
    have fb := yE_year r p nti hr hp hs hy q' hq' hy2 b hb
    obtain ⟨j, hj⟩ := hq
    obtain ⟨j', hj'⟩ := hq'
    rw [yG_of r p q j (by omega) hj, yG_of r p q' j' (by omega) hj'] at hg
    have := (grid_lt p.y j j' r.inter (by omega)).2 hg
    rw [← hj, ← hj'] at this
    apply ltP_of_year_lt a b
    rw [fa, fb]; omega

end Echse.Lemmas.RrYlyRfc
