/-
  C15 enumeration part (written once by a loop, then static): arithmetic Hijri scale 4, per day number,
  chunks 0..17 of 1024 points.
  One theorem per chunk: each is checked by the kernel on its own (bounded memory and heartbeats).
-/
import Echse.Lemmas.C15Enum
namespace Echse.Scale

theorem hij4A_c0 : allFrom (chkH 4) (dLo + 1024 * (0 + 0)) 1024 = true := by decide +kernel
theorem hij4A_c1 : allFrom (chkH 4) (dLo + 1024 * (0 + 1)) 1024 = true := by decide +kernel
theorem hij4A_c2 : allFrom (chkH 4) (dLo + 1024 * (0 + 2)) 1024 = true := by decide +kernel
theorem hij4A_c3 : allFrom (chkH 4) (dLo + 1024 * (0 + 3)) 1024 = true := by decide +kernel
theorem hij4A_c4 : allFrom (chkH 4) (dLo + 1024 * (0 + 4)) 1024 = true := by decide +kernel
theorem hij4A_c5 : allFrom (chkH 4) (dLo + 1024 * (0 + 5)) 1024 = true := by decide +kernel
theorem hij4A_c6 : allFrom (chkH 4) (dLo + 1024 * (0 + 6)) 1024 = true := by decide +kernel
theorem hij4A_c7 : allFrom (chkH 4) (dLo + 1024 * (0 + 7)) 1024 = true := by decide +kernel
theorem hij4A_c8 : allFrom (chkH 4) (dLo + 1024 * (0 + 8)) 1024 = true := by decide +kernel
theorem hij4A_c9 : allFrom (chkH 4) (dLo + 1024 * (0 + 9)) 1024 = true := by decide +kernel
theorem hij4A_c10 : allFrom (chkH 4) (dLo + 1024 * (0 + 10)) 1024 = true := by decide +kernel
theorem hij4A_c11 : allFrom (chkH 4) (dLo + 1024 * (0 + 11)) 1024 = true := by decide +kernel
theorem hij4A_c12 : allFrom (chkH 4) (dLo + 1024 * (0 + 12)) 1024 = true := by decide +kernel
theorem hij4A_c13 : allFrom (chkH 4) (dLo + 1024 * (0 + 13)) 1024 = true := by decide +kernel
theorem hij4A_c14 : allFrom (chkH 4) (dLo + 1024 * (0 + 14)) 1024 = true := by decide +kernel
theorem hij4A_c15 : allFrom (chkH 4) (dLo + 1024 * (0 + 15)) 1024 = true := by decide +kernel
theorem hij4A_c16 : allFrom (chkH 4) (dLo + 1024 * (0 + 16)) 1024 = true := by decide +kernel
theorem hij4A_c17 : allFrom (chkH 4) (dLo + 1024 * (0 + 17)) 1024 = true := by decide +kernel

theorem hij4A_chunks : ∀ c, c < 18 → allFrom (chkH 4) (dLo + 1024 * (0 + c)) 1024 = true
  | 0, _ => hij4A_c0
  | 1, _ => hij4A_c1
  | 2, _ => hij4A_c2
  | 3, _ => hij4A_c3
  | 4, _ => hij4A_c4
  | 5, _ => hij4A_c5
  | 6, _ => hij4A_c6
  | 7, _ => hij4A_c7
  | 8, _ => hij4A_c8
  | 9, _ => hij4A_c9
  | 10, _ => hij4A_c10
  | 11, _ => hij4A_c11
  | 12, _ => hij4A_c12
  | 13, _ => hij4A_c13
  | 14, _ => hij4A_c14
  | 15, _ => hij4A_c15
  | 16, _ => hij4A_c16
  | 17, _ => hij4A_c17
  | n + 18, h => absurd h (by omega)

theorem hij4A : ∀ k, dLo + 1024 * 0 ≤ k → k < dLo + 1024 * (0 + 18) → chkH 4 k = true :=
  allFrom_chunks _ _ _ _ _ hij4A_chunks

end Echse.Scale
