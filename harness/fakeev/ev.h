/* deterministic stand-in for <ev.h> (libev 4.33 semantics of the watchers echsd.c uses; DESIGN.md Appendix B).
 * The harness drives it with a virtual clock. */
#ifndef HX_FAKE_EV_H
#define HX_FAKE_EV_H
#include <stddef.h>
#include <sys/types.h>

typedef double ev_tstamp;
struct ev_loop { ev_tstamp now; int broken; };

#define EV_P	struct ev_loop *loop
#define EV_P_	EV_P,
#define EV_A	loop
#define EV_A_	EV_A,
#define EVFLAG_AUTO	0
#define EVBREAK_ALL	2
#define EV_READ		1

#define EV_WATCHER(type)	int active; int pending; void *data; void (*cb)(EV_P_ struct type *w, int revents);
#define ev_is_pending(w)	((w)->pending)
#define ev_is_active(w)	((w)->active)

typedef struct ev_periodic {
	EV_WATCHER(ev_periodic)
	ev_tstamp at;
	ev_tstamp offset;
	ev_tstamp interval;
	ev_tstamp (*reschedule_cb)(struct ev_periodic *w, ev_tstamp now);
	unsigned long seq;
} ev_periodic;

typedef struct ev_child {
	EV_WATCHER(ev_child)
	int flags;
	int pid;
	int rpid;
	int rstatus;
} ev_child;

typedef struct ev_timer { EV_WATCHER(ev_timer) ev_tstamp at, repeat; } ev_timer;
typedef struct ev_io { EV_WATCHER(ev_io) int fd, events; } ev_io;
typedef struct ev_signal { EV_WATCHER(ev_signal) int signum; } ev_signal;

#define ev_init(w, cb_)	do { (w)->active = 0; (w)->pending = 0; (w)->cb = (cb_); } while (0)
#define ev_periodic_init(w, cb_, ofs, ival, rcb)	do { ev_init(w, cb_); (w)->offset = (ofs); (w)->interval = (ival); (w)->reschedule_cb = (rcb); } while (0)
#define ev_child_init(w, cb_, pid_, trace)	do { ev_init(w, cb_); (w)->pid = (pid_); (w)->flags = (trace); } while (0)
#define ev_timer_init(w, cb_, after, rep)	do { ev_init(w, cb_); (w)->at = (after); (w)->repeat = (rep); } while (0)
#define ev_io_init(w, cb_, fd_, ev_)	do { ev_init(w, cb_); (w)->fd = (fd_); (w)->events = (ev_); } while (0)
#define ev_signal_init(w, cb_, sig)	do { ev_init(w, cb_); (w)->signum = (sig); } while (0)

extern struct ev_loop *ev_default_loop(unsigned int flags);
extern void ev_loop_destroy(EV_P);
extern void ev_loop_fork(EV_P);
extern void ev_break(EV_P_ int how);
extern int ev_loop(EV_P_ int flags);
extern void ev_periodic_start(EV_P_ ev_periodic *w);
extern void ev_periodic_stop(EV_P_ ev_periodic *w);
extern void ev_child_start(EV_P_ ev_child *w);
extern void ev_child_stop(EV_P_ ev_child *w);
extern void ev_timer_start(EV_P_ ev_timer *w);
extern void ev_io_start(EV_P_ ev_io *w);
extern void ev_io_stop(EV_P_ ev_io *w);
extern void ev_signal_start(EV_P_ ev_signal *w);

#endif
