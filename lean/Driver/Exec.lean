import Echse.Model.Exec
import Driver.Util
open Echse.Exec
namespace Driver

/-- `x.run so se same mo me | o10 e5 o3 …` : totals of stdout / stderr bytes per sink -/
def runExec (args : List String) : String :=
  match args with
  | so :: se :: same :: mo :: me :: "|" :: chunks =>
    let b (s : String) := s == "1"
    let c := Cfg.mk' (b so) (b se) (b same) (b mo) (b me)
    let p := prep c
    let chs : List Chunk := chunks.filterMap fun t =>
      if t.startsWith "o" then (t.drop 1).toString.toNat?.map fun n => (true, List.replicate n 1)
      else if t.startsWith "e" then (t.drop 1).toString.toNat?.map fun n => (false, List.replicate n 0)
      else none
    let tot (l : List Nat) := s!"o{(l.filter (· == 1)).length},e{(l.filter (· == 0)).length}"
    let ofile := if c.out.isSome then tot (content p 2 chs) else "-"
    let efile := if c.err.isSome && c.err != c.out then tot (content p 3 chs) else "-"
    let mail := if c.mailout || c.mailerr then tot (mailBody p chs) else "-"
    s!"ofile={ofile} efile={efile} mail={mail} mrm={if p.mrm then 1 else 0}"
  | _ => "bad-op"

end Driver
