/-
  RFC 5545 section 3.3.10 recurrence sets, for the rule language property C01 names, written as predicates over
  calendar dates (proleptic Gregorian day numbers, `Spec.Cal.days`) — a specification to be read, which mentions
  nothing of the C code.  Weeks start on Monday (WKST=MO).  The rule is given as `Echse.Rrule.Rule` (the parsed form:
  BYxxx parts as lists), `ds` is DTSTART.

  `Instance r ds x`  : x is an instance of the rule before BYSETPOS, COUNT and UNTIL are applied
  `Occurs r ds x`    : x is in the recurrence set (BYSETPOS applied within x's period; at or after DTSTART; not after UNTIL)
  COUNT is a statement about prefixes of the ascending enumeration and is stated with the theorems.
-/
import Echse.Model.RrBase
import Echse.Spec.RuleExt
namespace Echse.Spec.Rfc
open Echse.Rrule Echse.Instant Echse.Spec.Cal Echse.Spec.RuleExt

/-- the date of an instant as a day number -/
def dayOf (x : Inst) : Int := days x.y x.m x.d

/-- seconds into the day; an all-day (DATE) value counts as the start of its day -/
def secOf (x : Inst) : Int := if x.H = allDay then 0 else (x.H : Int) * 3600 + (x.M : Int) * 60 + x.S

/-- seconds since day 0 -/
def absOf (x : Inst) : Int := dayOf x * 86400 + secOf x

/-- x is a real calendar date with a real time of day (or a DATE value), of the same kind and sub-second part as DTSTART -/
def SameKind (ds x : Inst) : Prop :=
  1 ≤ x.m ∧ x.m ≤ 12 ∧ 1 ≤ x.d ∧ x.d ≤ monthLen x.y x.m ∧ x.ms = ds.ms ∧
  ((ds.H = allDay ∧ x.H = allDay ∧ x.M = ds.M ∧ x.S = ds.S) ∨ (ds.H ≠ allDay ∧ x.H < 24 ∧ x.M < 60 ∧ x.S < 60))

/-! ### the BYxxx parts as limits on a date -/

def yearLen (y : Nat) : Nat := if isLeap y then 366 else 365
def ydayOf (x : Inst) : Int := dayOf x - days x.y 1 1 + 1

/-- BYMONTH -/
def monthOk (r : Rule) (x : Inst) : Prop := r.mon = [] ∨ x.m ∈ r.mon
/-- BYMONTHDAY: n > 0 the n-th day of the month, n < 0 the |n|-th last -/
def mdayOk (r : Rule) (x : Inst) : Prop :=
  r.dom = [] ∨ ∃ n ∈ r.dom, (0 < n ∧ n = x.d) ∨ (n < 0 ∧ (monthLen x.y x.m : Int) + 1 + n = x.d)
/-- BYYEARDAY: n > 0 the n-th day of the year, n < 0 the |n|-th last -/
def ydayOk (r : Rule) (x : Inst) : Prop :=
  r.doy = [] ∨ ∃ n ∈ r.doy, (0 < n ∧ n = ydayOf x) ∨ (n < 0 ∧ (yearLen x.y : Int) + 1 + n = ydayOf x)
/-- the plain weekdays of BYDAY (values 1..7 = MO..SU of the packed form) -/
def plainDays (r : Rule) : List Int := r.dow.filter fun t => 1 ≤ t ∧ t ≤ 7
/-- BYDAY (without ordinals) -/
def wdayOk (r : Rule) (x : Inst) : Prop := plainDays r = [] ∨ (wdayOf (dayOf x) : Int) ∈ plainDays r

/-- the date limits of DAILY and the sub-daily frequencies -/
def DateOk (r : Rule) (x : Inst) : Prop := monthOk r x ∧ mdayOk r x ∧ wdayOk r x

/-! ### time of day -/

/-- BYHOUR / BYMINUTE / BYSECOND as expansions (DAILY and above): the listed values, or DTSTART's -/
def hourExp (r : Rule) (ds x : Inst) : Prop := if r.H = [] then x.H = ds.H else x.H ∈ r.H
def minExp (r : Rule) (ds x : Inst) : Prop := if r.M = [] then x.M = ds.M else x.M ∈ r.M
def secExp (r : Rule) (ds x : Inst) : Prop := if r.S = [] then x.S = ds.S else x.S ∈ r.S
/-- … and as limits (at or below their own frequency) -/
def hourLim (r : Rule) (x : Inst) : Prop := r.H = [] ∨ x.H ∈ r.H
def minLim (r : Rule) (x : Inst) : Prop := r.M = [] ∨ x.M ∈ r.M
def secLim (r : Rule) (x : Inst) : Prop := r.S = [] ∨ x.S ∈ r.S

def TimeExp (r : Rule) (ds x : Inst) : Prop :=
  ds.H = allDay ∨ (hourExp r ds x ∧ minExp r ds x ∧ secExp r ds x)

/-! ### instances per frequency (before BYSETPOS) -/

/-- FREQ=DAILY: every INTERVAL-th day counted from DTSTART's day, limited by BYMONTH, BYMONTHDAY, BYDAY;
BYHOUR/BYMINUTE/BYSECOND expand -/
def DailyInst (r : Rule) (ds x : Inst) : Prop :=
  SameKind ds x ∧ (∃ k : Nat, dayOf x = dayOf ds + k * r.inter) ∧ DateOk r x ∧ TimeExp r ds x

/-- the Monday that starts the week of a day -/
def weekStart (n : Int) : Int := n - ((wdayOf n : Int) - 1)

/-- FREQ=WEEKLY: every INTERVAL-th Monday-based week counted from DTSTART's week; within it the BYDAY weekdays (or
DTSTART's weekday), limited by BYMONTH; time parts expand -/
def WeeklyInst (r : Rule) (ds x : Inst) : Prop :=
  SameKind ds x ∧ (∃ k : Nat, weekStart (dayOf x) = weekStart (dayOf ds) + 7 * k * r.inter) ∧
  (if plainDays r = [] then wdayOf (dayOf x) = wdayOf (dayOf ds) else (wdayOf (dayOf x) : Int) ∈ plainDays r) ∧
  monthOk r x ∧ TimeExp r ds x

/-- FREQ=HOURLY: every INTERVAL-th hour from DTSTART; date parts, BYYEARDAY and BYHOUR limit, BYMINUTE/BYSECOND expand -/
def HourlyInst (r : Rule) (ds x : Inst) : Prop :=
  SameKind ds x ∧ x.H ≠ allDay ∧
  (∃ k : Nat, dayOf x * 24 + x.H = dayOf ds * 24 + (if ds.H = allDay then 0 else ds.H) + k * r.inter) ∧
  DateOk r x ∧ ydayOk r x ∧ hourLim r x ∧ minExp r (if ds.H = allDay then { ds with M := 0, S := 0 } else ds) x ∧
  secExp r (if ds.H = allDay then { ds with M := 0, S := 0 } else ds) x

/-- FREQ=MINUTELY -/
def MinutelyInst (r : Rule) (ds x : Inst) : Prop :=
  SameKind ds x ∧ x.H ≠ allDay ∧
  (∃ k : Nat, (dayOf x * 24 + x.H) * 60 + x.M = (absOf ds) / 60 + k * r.inter) ∧
  DateOk r x ∧ ydayOk r x ∧ hourLim r x ∧ minLim r x ∧ secExp r (if ds.H = allDay then { ds with S := 0 } else ds) x

/-- FREQ=SECONDLY -/
def SecondlyInst (r : Rule) (ds x : Inst) : Prop :=
  SameKind ds x ∧ x.H ≠ allDay ∧ (∃ k : Nat, absOf x = absOf ds + k * r.inter) ∧
  DateOk r x ∧ ydayOk r x ∧ hourLim r x ∧ minLim r x ∧ secLim r x

/-! ### MONTHLY and YEARLY: the dates of a period by the RFC's expand/limit table and its notes 1 and 2 -/

/-- the packed BYDAY entries: ordinal (0 = every) and weekday of `(count << 3) | weekday` -/
def ordOf (t : Int) : Int := t / 8
def wdOf (t : Int) : Int := t % 8

/-- x is the n-th (n > 0) or |n|-th last (n < 0) day with its weekday among the days [lo, hi] (a month or a year) -/
def NthWeekday (n : Int) (lo hi : Int) (dx : Int) : Prop :=
  lo ≤ dx ∧ dx ≤ hi ∧ ((0 < n ∧ (dx - lo) / 7 + 1 = n) ∨ (n < 0 ∧ (hi - dx) / 7 + 1 = -n))

/-- BYDAY inside a month (note 1: special expand for MONTHLY): every such weekday, or the n-th ones -/
def bydayInMonth (r : Rule) (x : Inst) : Prop :=
  ∃ t ∈ r.dow, wdOf t = wdayOf (dayOf x) ∧
    (ordOf t = 0 ∨ NthWeekday (ordOf t) (days x.y x.m 1) (days x.y x.m (monthLen x.y x.m)) (dayOf x))
/-- BYDAY inside a year (note 2: special expand for YEARLY) -/
def bydayInYear (r : Rule) (x : Inst) : Prop :=
  ∃ t ∈ r.dow, wdOf t = wdayOf (dayOf x) ∧
    (ordOf t = 0 ∨ NthWeekday (ordOf t) (days x.y 1 1) (days x.y 12 31) (dayOf x))
/-- BYDAY as a plain weekday limit (used with BYWEEKNO, where RFC 5545 allows no numbered entries) -/
def bydayLimit (r : Rule) (x : Inst) : Prop := ∃ t ∈ r.dow, wdOf t = wdayOf (dayOf x)

/-- FREQ=MONTHLY: every INTERVAL-th month from DTSTART's; BYMONTH limits; BYMONTHDAY expands; BYDAY limits if
BYMONTHDAY is present (a numbered entry then admits the n-th such weekday of the month only), else expands within the
month; with neither, DTSTART's day of month -/
def MonthlyInst (r : Rule) (ds x : Inst) : Prop :=
  SameKind ds x ∧ (∃ k : Nat, (x.y : Int) * 12 + x.m = (ds.y : Int) * 12 + ds.m + k * r.inter) ∧ monthOk r x ∧
  (if r.dom ≠ [] then mdayOk r x ∧ (r.dow = [] ∨ bydayInMonth r x)
   else if r.dow ≠ [] then bydayInMonth r x
   else x.d = ds.d) ∧
  TimeExp r ds x

/-- ISO 8601 week number of a date within ISO year `y` (weeks start on Monday, week 1 contains January 4th) -/
def week1Start (y : Nat) : Int := weekStart (days y 1 4)
def isoWeeks (y : Nat) : Int := (week1Start (y + 1) - week1Start y) / 7
/-- BYWEEKNO: x lies in week n (n < 0 counting from the last week) of some ISO year `iy` - its own calendar year's or,
for the days of a first week that lie in the December before and those of a last week in the January after, the
neighbouring one's (weeks partition the days, so `iy` is determined by x, and a week with a day of year y belongs to
ISO year y - 1, y or y + 1) -/
def weeknoOk (r : Rule) (x : Inst) : Prop :=
  ∃ n ∈ r.wk, ∃ iy ∈ [x.y - 1, x.y, x.y + 1], let w := if n > 0 then n else isoWeeks iy + 1 + n
    1 ≤ w ∧ w ≤ isoWeeks iy ∧ week1Start iy + 7 * (w - 1) ≤ dayOf x ∧ dayOf x < week1Start iy + 7 * w

/-- FREQ=YEARLY: every INTERVAL-th year from DTSTART's; BYMONTH, BYWEEKNO, BYYEARDAY, BYMONTHDAY expand (each restricts
the dates of the year); BYDAY limits if BYYEARDAY or BYMONTHDAY is present (a numbered entry counting within the month
when BYMONTH is given, within the year otherwise), else selects weekdays within the weeks of
BYWEEKNO, else within the months of BYMONTH, else within the year; with no BYxxx date part at all, DTSTART's month and
day; with BYMONTH alone DTSTART's day; with BYWEEKNO alone DTSTART's weekday -/
def YearlyInst (r : Rule) (ds x : Inst) : Prop :=
  SameKind ds x ∧ (∃ k : Nat, x.y = ds.y + k * r.inter) ∧
  monthOk r x ∧ (r.wk = [] ∨ weeknoOk r x) ∧ ydayOk r x ∧ mdayOk r x ∧
  (if r.dow ≠ [] then
     (if r.doy ≠ [] ∨ r.dom ≠ [] then (if r.mon ≠ [] then bydayInMonth r x else bydayInYear r x)
      else if r.wk ≠ [] then bydayLimit r x
      else if r.mon ≠ [] then bydayInMonth r x
      else bydayInYear r x)
   else if r.wk ≠ [] ∧ r.doy = [] ∧ r.dom = [] then wdayOf (dayOf x) = wdayOf (dayOf ds)
   else if r.doy = [] ∧ r.dom = [] ∧ r.wk = [] then (x.d = ds.d ∧ (r.mon ≠ [] ∨ x.m = ds.m))
   else True) ∧
  TimeExp r ds x

/-- instances of the rule, whatever its frequency -/
def Instance (r : Rule) (ds x : Inst) : Prop :=
  match r.freq with
  | 1 => YearlyInst r ds x
  | 2 => MonthlyInst r ds x
  | 3 => WeeklyInst r ds x
  | 4 => DailyInst r ds x
  | 5 => HourlyInst r ds x
  | 6 => MinutelyInst r ds x
  | 7 => SecondlyInst r ds x
  | _ => False

/-! ### BYSETPOS, DTSTART, UNTIL -/

/-- the period an instant belongs to: its year, month, Monday-based week, day, hour, minute or second -/
def periodOf (freq : Nat) (x : Inst) : Int :=
  match freq with
  | 1 => x.y
  | 2 => (x.y : Int) * 12 + x.m
  | 3 => weekStart (dayOf x)
  | 4 => dayOf x
  | 5 => dayOf x * 24 + x.H
  | 6 => (dayOf x * 24 + x.H) * 60 + x.M
  | _ => absOf x

/-- BYSETPOS: x is the n-th (n > 0) or |n|-th last (n < 0) of the instances of its period, ordered by time;
`before`/`after` count the instances of the same period that are earlier / later than x -/
def SetposOk (r : Rule) (ds x : Inst) : Prop :=
  r.pos = [] ∨ ∃ n ∈ r.pos, ∃ before after : List Inst,
    (∀ y, y ∈ before ↔ Instance r ds y ∧ periodOf r.freq y = periodOf r.freq x ∧ absOf y < absOf x) ∧ before.Nodup ∧
    (∀ y, y ∈ after ↔ Instance r ds y ∧ periodOf r.freq y = periodOf r.freq x ∧ absOf x < absOf y) ∧ after.Nodup ∧
    ((0 < n ∧ (before.length : Int) + 1 = n) ∨ (n < 0 ∧ (after.length : Int) + 1 = -n))

/-- x belongs to the recurrence set of (DTSTART ds, rule r), COUNT aside -/
def Occurs (r : Rule) (ds x : Inst) : Prop :=
  Instance r ds x ∧ SetposOk r ds x ∧ absOf ds ≤ absOf x ∧ (r.untl = Inst.unpack (2^64 - 1) ∨ absOf x ≤ absOf r.untl)

end Echse.Spec.Rfc
