/-
  C01, `fillMnly` (FREQ=MINUTELY) against RFC 5545 (`Echse.Spec.Rfc.MinutelyInst`), part 1: one round of the loop.
  The body enumerates the seconds of a minute iff the minute passes the limits; what it steps over holds no instance;
  the increment expression moves the candidate on by exactly the chosen number of minutes.
-/
import Echse.Lemmas.RrSubRfc5
import Echse.Lemmas.RrMnlyOk
namespace Echse.Lemmas.RrMnlyRfc
open Echse.Rrule Echse.Instant Echse.Spec.RrOk Echse.Lemmas.RrSubOk Echse.Spec.Rfc Echse.Spec.Cal Echse.Spec.RuleExt
open Echse.Lemmas.RrMnlyOk Echse.Lemmas.RrSubRfc

/-- the limits a MINUTELY instance passes -/
def MnlyLim (r : Rule) (x : Inst) : Prop := DateOk r x ∧ ydayOk r x ∧ hourLim r x ∧ minLim r x

/-- minutes since day 0 -/
def mabsOf (x : Inst) : Int := (dayOf x * 24 + x.H) * 60 + x.M

theorem same_parts_m (x X : Inst) (hx : VT x) (hX : VT X) (D : Nat) (h : mabsOf x = mabsOf X + D)
    (h1 : D < 1440 - (X.H * 60 + X.M)) :
    (x.y = X.y ∧ x.m = X.m ∧ x.d = X.d) ∧ (D < 60 - X.M → x.H = X.H ∧ (D = 0 → x.M = X.M)) := by
  obtain ⟨a1, a2, a3, a4, aH, aM, aS, _⟩ := hX
  obtain ⟨b1, b2, b3, b4, bH, bM, bS, _⟩ := hx
  simp only [mabsOf, dayOf] at h
  have he : days x.y x.m x.d = days X.y X.m X.d := by omega
  refine ⟨days_inj _ _ _ _ _ _ b1 b2 b3 b4 a1 a2 a3 a4 he, ?_⟩
  rw [he] at h
  intro h2
  refine ⟨by omega, ?_⟩
  intro h3
  omega

section body
variable (r : Rule) (p : Inst) (k : Nat) (hr : WfRule r) (X : Inst) (hX : VT X) (hy1 : 1901 ≤ X.y) (hy2 : X.y ≤ 2099)
  (w : Nat) (hw : w = wdayOf (dayOf X))
include hr hX hy1 hy2 hw

/-- the body: the minute passes the limits and its seconds are enumerated, or it is stepped over together with
whatever else the failed test rules out -/
theorem mnlyBody_sem (secs : List (Nat × Nat)) (cnt : Nat) (acc : List Inst) :
    (MnlyLim r X ∧ mnlyBody (mkSubCtx r p k) secs X.y X.m X.d X.H X.M w (getNdom X.y X.m) cnt acc =
      ((mnlyEnum (mkSubCtx r p k) X.y X.m X.d X.H X.M secs cnt acc).1,
       (mnlyEnum (mkSubCtx r p k) X.y X.m X.d X.H X.M secs cnt acc).2.1,
       (mnlyEnum (mkSubCtx r p k) X.y X.m X.d X.H X.M secs cnt acc).2.2, (mkSubCtx r p k).inter)) ∨
    (∃ inc, mnlyBody (mkSubCtx r p k) secs X.y X.m X.d X.H X.M w (getNdom X.y X.m) cnt acc = (cnt, acc, false, inc) ∧
      1 ≤ inc ∧ inc < 2147483648 + 86400 ∧ (∃ j, inc = j * (mkSubCtx r p k).inter) ∧
      ∀ (x : Inst) (t : Nat), VT x → MnlyLim r x →
        mabsOf x = mabsOf X + ((t * (mkSubCtx r p k).inter : Nat) : Int) →
        ∃ t', t * (mkSubCtx r p k).inter = inc + t' * (mkSubCtx r p k).inter) := by
  obtain ⟨hi1, hi2⟩ := mkSubCtx_inter r p k hr
  have hX' := hX
  obtain ⟨_, _, _, _, aH, aM, aS, _⟩ := hX'
  have T1 := t_day r p k hr X hX hy1 hy2 w hw
  have T2 := t_hour r p k hr X hX
  have T3 := t_min r p k hr X hX
  have T5 := t_doy r p k hr X hX hy1 hy2
  have eD : (1440 + u32 - (X.H * 60 + X.M) % u32) % u32 = 1440 - (X.H * 60 + X.M) := by simp only [u32]; omega
  have eH : (60 + u32 - X.M) % u32 = 60 - X.M := by simp only [u32]; omega
  -- a filtered day
  have hday : (¬ DateOk r X ∨ ¬ ydayOk r X) → ∀ (x : Inst) (t : Nat), VT x → MnlyLim r x →
      mabsOf x = mabsOf X + ((t * (mkSubCtx r p k).inter : Nat) : Int) →
      ∃ t', t * (mkSubCtx r p k).inter =
        interPast (1440 - (X.H * 60 + X.M)) (mkSubCtx r p k).inter + t' * (mkSubCtx r p k).inter := by
    intro hn x t hx ⟨l1, l2, _, _⟩ ht
    refine (skip_ex _ _ t hi1 hi2 (by omega) (by omega) ?_).2
    by_cases c : 1440 - (X.H * 60 + X.M) ≤ t * (mkSubCtx r p k).inter
    · exact c
    · obtain ⟨⟨e1, e2, e3⟩, _⟩ := same_parts_m x X hx hX _ ht (by omega)
      obtain ⟨g1, g2⟩ := date_congr r x X e1 e2 e3
      rcases hn with hn | hn
      · exact absurd (g1.mp l1) hn
      · exact absurd (g2.mp l2) hn
  have bD := interPast_bounds (1440 - (X.H * 60 + X.M)) (mkSubCtx r p k).inter hi1 hi2 (by omega) (by omega)
  have mD := interPast_mul (1440 - (X.H * 60 + X.M)) (mkSubCtx r p k).inter hi1 hi2 (by omega) (by omega)
  unfold mnlyBody
  simp only [eD, eH]
  by_cases c1 : (mkSubCtx r p k).dayOut w X.m X.d (getNdom X.y X.m) = true
  · rw [if_pos c1]
    exact Or.inr ⟨_, rfl, by omega, by omega, mD, hday (Or.inl (by rw [← T1]; simp [c1]))⟩
  rw [if_neg c1]
  have d1 : DateOk r X := T1.mp (by simpa using c1)
  by_cases c2 : ((mkSubCtx r p k).HMask &&& shl1 X.H) = 0
  · rw [if_pos c2]
    have bH := interPast_bounds (60 - X.M) (mkSubCtx r p k).inter hi1 hi2 (by omega) (by omega)
    refine Or.inr ⟨_, rfl, by omega, by omega, interPast_mul _ _ hi1 hi2 (by omega) (by omega), ?_⟩
    intro x t hx ⟨_, _, l3, _⟩ ht
    refine (skip_ex _ _ t hi1 hi2 (by omega) (by omega) ?_).2
    by_cases c : 60 - X.M ≤ t * (mkSubCtx r p k).inter
    · exact c
    · obtain ⟨_, h2⟩ := same_parts_m x X hx hX _ ht (by omega)
      obtain ⟨e4, _⟩ := h2 (by omega)
      exact absurd ((hour_congr r x X e4).mp l3) (T2.mp c2)
  rw [if_neg c2]
  have d2 : hourLim r X := Classical.not_not.mp (fun h => c2 (T2.mpr h))
  by_cases c3 : ((mkSubCtx r p k).MMask &&& shl1q X.M) = 0
  · rw [if_pos c3]
    refine Or.inr ⟨_, rfl, hi1, by omega, ⟨1, by rw [Nat.one_mul]⟩, ?_⟩
    intro x t hx ⟨_, _, _, l4⟩ ht
    have h0 : t ≠ 0 := by
      intro h0
      rw [h0, Nat.zero_mul] at ht
      obtain ⟨_, h2⟩ := same_parts_m x X hx hX 0 ht (by omega)
      obtain ⟨_, h3⟩ := h2 (by omega)
      exact absurd ((min_congr r x X (h3 rfl)).mp l4) (T3.mp c3)
    refine ⟨t - 1, ?_⟩
    have : t = (t - 1) + 1 := by omega
    rw [this, Nat.add_mul, Nat.one_mul, Nat.add_comm]
    simp
  rw [if_neg c3]
  have d3 : minLim r X := Classical.not_not.mp (fun h => c3 (T3.mpr h))
  by_cases c5 : (!(mkSubCtx r p k).r.doy.isEmpty &&
      !doyHit (mkSubCtx r p k).r.doy (ymdGetYd X.y X.m X.d) (maxyOf X.y)) = true
  · rw [if_pos c5]
    exact Or.inr ⟨_, rfl, by omega, by omega, mD, hday (Or.inr (by rw [← T5]; simp only [c5]; simp))⟩
  · rw [if_neg c5]
    have d5 : ydayOk r X := T5.mp (by simpa using c5)
    exact Or.inl ⟨⟨d1, d5, d2, d3⟩, rfl⟩

end body

/-- minutes since day 0 of the candidate `y-m-d H:M` -/
def mcabs (y m d H M : Nat) : Int := (days y m d * 24 + (H : Int)) * 60 + M

/-- the increment expression moves the candidate on by exactly `inc` minutes (or out of the years the loop visits) -/
theorem mnlyStep_adv (c : SubCtx) (secs : List (Nat × Nat)) (f y m d H M w cnt : Nat) (acc : List Inst) (inc : Nat)
    (hy1 : 1901 ≤ y) (hy2 : y ≤ 2099) (hm1 : 1 ≤ m) (hm2 : m ≤ 12) (hd1 : 1 ≤ d) (hd2 : d ≤ getNdom y m)
    (hH : H < 24) (hM : M < 60) (hi1 : 1 ≤ inc) (hi2 : inc < 2147483648 + 86400)
    (hw : w = wdayOf (days y m d)) :
    ∃ y' m' d' H' M' w', mnlyStep c secs f y m d H ((M + inc) % u32) w (getNdom y m) cnt acc =
        mnlyLoop c secs f y' m' d' H' M' w' (getNdom y' m') cnt acc ∧
      1901 ≤ y' ∧ 1 ≤ m' ∧ m' ≤ 12 ∧ 1 ≤ d' ∧ d' ≤ getNdom y' m' ∧ H' < 24 ∧ M' < 60 ∧
      (mcabs y m d H M + inc < days 2100 1 1 * 1440 →
        y' ≤ 2099 ∧ mcabs y' m' d' H' M' = mcabs y m d H M + inc ∧ w' = wdayOf (days y' m' d')) ∧
      (days 2100 1 1 * 1440 ≤ mcabs y m d H M + inc → 2100 ≤ y') := by
  have hnb := getNdom_bounds y m hm1 hm2
  have hlt := days_lt_2100 y m d hy2 hm1 hm2 (by rw [← ndom_eq y m hy1 hy2 hm1 hm2]; exact hd2)
  have e : (M + inc) % u32 = M + inc := by simp only [u32]; omega
  rw [e]
  clear e
  have eH : (H + (M + inc) / 60) % u32 = H + (M + inc) / 60 := by simp only [u32]; omega
  simp only [mnlyStep, eH]
  clear eH
  by_cases hC : M + inc ≥ 60
  · rw [if_pos hC]
    by_cases hE : H + (M + inc) / 60 ≥ 24
    · rw [if_pos hE]
      obtain ⟨y', m', d', he, h0, h1, h2, h3, h4, h5, h6⟩ :=
        carry_full y m d ((H + (M + inc) / 60) / 24) hy1 hy2 hm1 hm2 hd1 hd2 (by omega)
      have hwa := wday_adv (days y m d) w ((H + (M + inc) / 60) / 24) hw (by omega)
      simp only [he]
      refine ⟨y', m', d', _, _, _, rfl, h0, h1, h2, h3, h4, by omega, by omega, ?_, ?_⟩
      · intro hlt2
        simp only [mcabs] at hlt2 ⊢
        obtain ⟨g1, g2⟩ := h5 (by omega)
        refine ⟨g1, by omega, ?_⟩
        rw [hwa, g2]
      · intro hge
        simp only [mcabs] at hge
        exact h6 (by omega)
    · rw [if_neg hE]
      refine ⟨y, m, d, _, _, w, rfl, hy1, hm1, hm2, hd1, hd2, by omega, by omega, ?_, ?_⟩
      · intro _; simp only [mcabs]; exact ⟨hy2, by omega, hw⟩
      · intro hge; simp only [mcabs] at hge; omega
  · rw [if_neg hC]
    refine ⟨y, m, d, _, _, w, rfl, hy1, hm1, hm2, hd1, hd2, hH, by omega, ?_, ?_⟩
    · intro _; simp only [mcabs]; exact ⟨hy2, by omega, hw⟩
    · intro hge; simp only [mcabs] at hge; omega

theorem mnlyEnum_eq (c : SubCtx) (y m d H M : Nat) : ∀ (ts : List (Nat × Nat)) (cnt : Nat) (acc : List Inst),
    mnlyEnum c y m d H M ts cnt acc =
      gEnum c.nti c.proto c.r.untl (fun t => mkInst y m d H M t.1 c.proto.ms)
        (fun t => posPickP c.r.pos t.2 c.e.S.length) ts cnt acc := by
  intro ts
  induction ts with
  | nil => intro cnt acc; rfl
  | cons t rest ih =>
    intro cnt acc
    obtain ⟨s, iS⟩ := t
    simp only [mnlyEnum, gEnum, ih]

/-- results are only ever added -/
theorem mnlyLoop_mono (c : SubCtx) (secs : List (Nat × Nat)) : ∀ (fuel y m d H M w maxd cnt : Nat)
    (acc acc' : List Inst), mnlyLoop c secs fuel y m d H M w maxd cnt acc = some acc' → ∀ z ∈ acc, z ∈ acc' := by
  intro fuel
  induction fuel with
  | zero => intro y m d H M w maxd cnt acc acc' h; simp [mnlyLoop] at h
  | succ f ih =>
    intro y m d H M w maxd cnt acc acc' h z hz
    rw [mnlyLoop_succ] at h
    split at h
    · cases h; exact hz
    split at h
    · cases h; exact hz
    split at h
    · cases h; exact hz
    have hz1 : z ∈ (mnlyBody c secs y m d H M w maxd cnt acc).2.1 := by
      unfold mnlyBody
      simp only []
      split
      · exact hz
      split
      · exact hz
      split
      · exact hz
      split
      · exact hz
      · rw [mnlyEnum_eq]; exact gEnum_mono _ _ _ _ _ _ _ _ z hz
    generalize mnlyBody c secs y m d H M w maxd cnt acc = bd at h hz1
    obtain ⟨cnt1, acc1, fin, inc⟩ := bd
    simp only at h hz1
    split at h
    · cases h; exact hz1
    unfold mnlyStep at h
    simp only at h
    split at h
    · split at h
      · split at h
        · cases h
        · exact ih _ _ _ _ _ _ _ _ _ _ h z hz1
      · exact ih _ _ _ _ _ _ _ _ _ _ h z hz1
    · exact ih _ _ _ _ _ _ _ _ _ _ h z hz1

/-- a full list ends the loop -/
theorem mnlyLoop_full (c : SubCtx) (secs : List (Nat × Nat)) (fuel y m d H M w maxd cnt : Nat)
    (acc acc' : List Inst) (hc : ¬ cnt < c.nti) (h : mnlyLoop c secs fuel y m d H M w maxd cnt acc = some acc') :
    acc' = acc := by
  cases fuel with
  | zero => simp [mnlyLoop] at h
  | succ f =>
    rw [mnlyLoop_succ, if_pos hc] at h
    cases h; rfl

end Echse.Lemmas.RrMnlyRfc
