"""Translator: tables and constants of /repo/src -> lean/Echse/Gen/*.lean (DESIGN §2.2a).

`generate(srcdir, outdir)` rewrites a file only when its content changed (so an
unchanged source costs no re-proof) and returns the list of files it rewrote.
Every extraction is self-checked (expected element counts); a failed self-check
raises, which the check reports as a broken tie.
"""
import os
import re

GENERATORS = []   # filled by the sections below: (filename, function(srcdir) -> lean text)


def generator(name):
    def deco(f):
        GENERATORS.append((name, f))
        return f
    return deco


def strip_c_comments(s):
    s = re.sub(r"/\*.*?\*/", " ", s, flags=re.S)
    return re.sub(r"//[^\n]*", " ", s)


def read(srcdir, f):
    return strip_c_comments(open(os.path.join(srcdir, f)).read())


def c_array(text, name):
    """the brace-enclosed initialiser of `name[...] = { ... };` as a list of C expressions."""
    m = re.search(r"\b%s\s*\[[^\]]*\]\s*=\s*\{(.*?)\}\s*;" % re.escape(name), text, re.S)
    if not m:
        raise ValueError("array %s not found" % name)
    items = [x.strip() for x in m.group(1).split(",")]
    return [x for x in items if x]


def c_int(x):
    x = x.strip().rstrip("uUlL")
    return int(x, 0)


def lean_list(name, vals, ty="Nat", per=16):
    rows = []
    for i in range(0, len(vals), per):
        rows.append("  " + ", ".join(str(v) for v in vals[i:i + per]))
    return "def %s : List %s := [\n%s]\n" % (name, ty, ",\n".join(rows))


def func_body(text, name):
    """text of the function `name` (from its name to the closing brace at column 0)."""
    m = re.search(r"^%s\s*\(" % re.escape(name), text, re.M)
    if not m:
        raise ValueError("function %s not found" % name)
    e = text.index("\n}", m.start())
    return text[m.start():e]


def c_define(text, name):
    m = re.search(r"#\s*define\s+%s\s+\(?\s*([0-9a-fA-FxX]+)[uUlL]*\s*\)?" % re.escape(name), text)
    if not m:
        raise ValueError("#define %s not found" % name)
    return int(m.group(1), 0)


@generator("Tables.lean")
def gen_tables(srcdir):
    out = ["namespace Echse.Gen\n"]

    def table(cname, text, leanname, n):
        vals = [c_int(x) for x in c_array(text, cname)]
        if len(vals) != n:
            raise ValueError("%s: expected %d entries, found %d" % (cname, n, len(vals)))
        out.append("/-- `%s[]` -/\n" % cname + lean_list(leanname, vals))

    inst = read(srcdir, "instant.c")
    table("doy", inst, "instDoy", 25)
    table("mdays", func_body(inst, "__get_mdays"), "instMdays", 13)
    tz = read(srcdir, "tzob.c")
    table("__mon_yday", func_body(tz, "__inst_to_epoch"), "tzobMonYday", 13)
    e2i = func_body(tz, "__epoch_to_inst")
    table("rem", e2i, "tzobRem", 14)
    table("rm", e2i, "tzobRm", 14)
    out.append("def daisyUnixBase : Nat := %d\n" % c_define(tz, "DAISY_UNIX_BASE"))
    out.append("def daisyBaseYear : Nat := %d\n" % c_define(tz, "DAISY_BASE_YEAR"))
    d = read(srcdir, "echsd.c")
    i2t = func_body(d, "instant_to_tstamp")
    table("__mon_yday", i2t, "echsdMonYday", 14)
    m = re.search(r"t\s*\+=\s*(\d+)L?\s*\*\s*86400U?L", i2t)
    if not m:
        raise ValueError("instant_to_tstamp: epoch offset not found")
    out.append("def echsdEpochDays : Nat := %s\n" % m.group(1))
    out.append("\nend Echse.Gen\n")
    return "\n".join(out)


@generator("Hijri.lean")
def gen_hijri(srcdir):
    out = ["namespace Echse.Gen\n"]
    for cname, fn, lean in (("dat_ummulqura", "dat_ummulqura.c", "datUmmulqura"), ("dat_diyanet", "dat_diyanet.c", "datDiyanet")):
        vals = [c_int(x) for x in c_array(read(srcdir, fn), cname)]
        if len(vals) < 100:
            raise ValueError("%s: only %d entries" % (cname, len(vals)))
        out.append("/-- `%s[]` (SM, EM, then the month transitions) -/\n" % cname + lean_list(lean, vals))
    sc = read(srcdir, "scale.c")
    m = re.search(r"tsh\[\]\s*=\s*\{(.*?)\}\s*;", sc, re.S)
    ent = dict(re.findall(r"\[(TYP_\w+)\]\s*=\s*(-?\d+)U", m.group(1)))
    tsh = [int(ent[k]) % 2**32 for k in ("TYP_I", "TYP_II", "TYP_III", "TYP_IV")]
    out.append("/-- `tsh[]` (as 32-bit unsigned values) -/\n" + lean_list("scaleTsh", tsh))
    m = re.search(r"epo\[\]\s*=\s*\{(.*?)\}\s*;", sc, re.S)
    ent = dict(re.findall(r"\[(EPO_\w+)\]\s*=\s*(\d+)U", m.group(1)))
    out.append("/-- `epo[]` indexed by EPO_ASTRO = 0, EPO_CIVIL = 1 -/\n" + lean_list("scaleEpo", [int(ent["EPO_ASTRO"]), int(ent["EPO_CIVIL"])]))
    hm = [c_int(x) for x in c_array(func_body(sc, "hij2mjd"), "m")]
    if len(hm) != 13:
        raise ValueError("hij2mjd m[]: %d entries" % len(hm))
    out.append("/-- `m[]` of hij2mjd -/\n" + lean_list("hijMonthStart", hm))
    md = [c_int(x) for x in c_array(func_body(sc, "__ndim_greg"), "mdays")]
    if len(md) != 13:
        raise ValueError("__ndim_greg mdays[]: %d entries" % len(md))
    out.append("/-- `mdays[]` of __ndim_greg -/\n" + lean_list("scaleMdays", md))
    t = [c_int(x) for x in c_array(func_body(sc, "__wday_greg"), "t")]
    if len(t) != 12:
        raise ValueError("__wday_greg t[]: %d entries" % len(t))
    out.append("/-- `t[]` of __wday_greg (Sakamoto) -/\n" + lean_list("sakamotoT", t))
    out.append("\nend Echse.Gen\n")
    return "\n".join(out)


def erf_keywords(srcdir, fn):
    """(keyword, enum-name) pairs of a gperf input file"""
    txt = open(os.path.join(srcdir, fn)).read()
    body = txt.split("%%")[1]
    out = []
    for line in body.strip().splitlines():
        line = line.strip()
        if not line or line.startswith("#"):
            continue
        k, _, v = line.partition(",")
        out.append((k.strip(), v.strip()))
    if len(out) < 3:
        raise ValueError("%s: only %d keywords" % (fn, len(out)))
    return out


@generator("Keywords.lean")
def gen_keywords(srcdir):
    out = ["namespace Echse.Gen\n"]
    for fn, name in (("evical-gp.erf", "icalFields"), ("evcomp-gp.erf", "icalComps"), ("evmeth-gp.erf", "icalMeths"),
                     ("evrrul-gp.erf", "rrulKeys")):
        kws = erf_keywords(srcdir, fn)
        rows = ",\n".join('  ("%s", "%s")' % kv for kv in kws)
        out.append("/-- keyword table of `%s` (gperf input; lookups are exact, case-sensitive matches) -/\ndef %s : List (String × String) := [\n%s]\n" % (fn, name, rows))
    out.append("\nend Echse.Gen\n")
    return "\n".join(out)


def generate(srcdir, outdir):
    os.makedirs(outdir, exist_ok=True)
    changed = []
    for name, fn in GENERATORS:
        text = ("/- GENERATED by tools/gen.py from /repo/src on every check run; do not edit. -/\n"
                + fn(srcdir))
        path = os.path.join(outdir, name)
        old = open(path).read() if os.path.exists(path) else None
        if old != text:
            with open(path, "w") as f:
                f.write(text)
            changed.append(name)
    return changed


if __name__ == "__main__":
    import sys
    print(generate(sys.argv[1], sys.argv[2]))
