/-
  The time-of-day enumeration of the fillers: `make_enum` yields ascending lists of sane values (`EnumOk`), hence the
  ENUM loop visits its (hour, minute, second) triples in strictly ascending order of `tkey` (`timesIx_asc`).
-/
import Echse.Lemmas.RrOkBase
namespace Echse.Lemmas.RrOkBase
open Echse.Rrule Echse.Instant Echse.Spec.RrOk

/-- a time of day as the fillers may emit it -/
def TimeGood (h mi s : Nat) : Prop := (h = 255 ∧ mi = 0 ∧ s = 0) ∨ (h < 24 ∧ mi < 60 ∧ s < 60)

structure EnumOk (e : Enum) : Prop where
  ascH : e.H.Pairwise (fun a b => (a + 1) % 256 < (b + 1) % 256)
  ascM : Asc e.M
  ascS : Asc e.S
  mlt : ∀ mi ∈ e.M, mi < 60
  slt : ∀ s ∈ e.S, s < 60
  hgood : ∀ h ∈ e.H, h < 24 ∨ (h = 255 ∧ e.M = [0] ∧ e.S = [0])

abbrev Tix := (Nat × Nat × Nat) × (Nat × Nat × Nat)
def TK (t : Tix) : Nat := tkey t.2.1 t.2.2.1 t.2.2.2

theorem pw_zipIdx {R : Nat → Nat → Prop} {l : List Nat} (k : Nat) (h : l.Pairwise R) :
    (l.zipIdx k).Pairwise (fun a b => R a.1 b.1) := by
  apply List.Pairwise.of_map Prod.fst (S := R)
  · intro a b hab; exact hab
  · rw [List.zipIdx_map_fst]; exact h

theorem mem_timesIx {e : Enum} {t : Tix} (ht : t ∈ e.timesIx) :
    t.2.1 ∈ e.H ∧ t.2.2.1 ∈ e.M ∧ t.2.2.2 ∈ e.S := by
  unfold Enum.timesIx at ht
  obtain ⟨⟨h, iH⟩, hh, ht⟩ := List.mem_flatMap.1 ht
  obtain ⟨⟨mi, iM⟩, hm, ht⟩ := List.mem_flatMap.1 ht
  obtain ⟨⟨s, iS⟩, hs, ht⟩ := List.mem_map.1 ht
  subst ht
  show h ∈ e.H ∧ mi ∈ e.M ∧ s ∈ e.S
  exact ⟨List.fst_mem_of_mem_zipIdx hh, List.fst_mem_of_mem_zipIdx hm, List.fst_mem_of_mem_zipIdx hs⟩

theorem timesIx_good {e : Enum} (he : EnumOk e) {t : Tix} (ht : t ∈ e.timesIx) :
    TimeGood t.2.1 t.2.2.1 t.2.2.2 := by
  obtain ⟨h1, h2, h3⟩ := mem_timesIx ht
  rcases he.hgood _ h1 with h | ⟨h, hm, hs⟩
  · exact Or.inr ⟨h, he.mlt _ h2, he.slt _ h3⟩
  · rw [hm] at h2; rw [hs] at h3
    simp only [List.mem_singleton] at h2 h3
    exact Or.inl ⟨h, h2, h3⟩

theorem timesIx_asc {e : Enum} (he : EnumOk e) : e.timesIx.Pairwise (fun a b => TK a < TK b) := by
  unfold Enum.timesIx
  rw [List.pairwise_flatMap]
  constructor
  · rintro ⟨h, iH⟩ _
    show List.Pairwise _ (List.flatMap _ _)
    rw [List.pairwise_flatMap]
    constructor
    · rintro ⟨mi, iM⟩ _
      show List.Pairwise _ (List.map _ _)
      rw [List.pairwise_map]
      refine (pw_zipIdx 0 he.ascS).imp ?_
      rintro ⟨s1, i1⟩ ⟨s2, i2⟩ hlt
      show tkey h mi s1 < tkey h mi s2
      unfold tkey; simp only at hlt; omega
    · refine (pw_zipIdx 0 he.ascM).imp_of_mem ?_
      rintro ⟨m1, i1⟩ ⟨m2, i2⟩ _ _ hlt x hx y hy
      obtain ⟨⟨s1, j1⟩, hs1, hx⟩ := List.mem_map.1 hx
      obtain ⟨⟨s2, j2⟩, hs2, hy⟩ := List.mem_map.1 hy
      subst hx hy
      have := he.slt _ (List.fst_mem_of_mem_zipIdx hs1)
      show tkey h m1 s1 < tkey h m2 s2
      unfold tkey; simp only at hlt; omega
  · refine (pw_zipIdx 0 he.ascH).imp_of_mem ?_
    rintro ⟨h1, i1⟩ ⟨h2, i2⟩ _ _ hlt x hx y hy
    obtain ⟨⟨m1, k1⟩, hm1, hx⟩ := List.mem_flatMap.1 hx
    obtain ⟨⟨m2, k2⟩, hm2, hy⟩ := List.mem_flatMap.1 hy
    obtain ⟨⟨s1, j1⟩, hs1, hx⟩ := List.mem_map.1 hx
    obtain ⟨⟨s2, j2⟩, hs2, hy⟩ := List.mem_map.1 hy
    subst hx hy
    have := he.slt _ (List.fst_mem_of_mem_zipIdx hs1)
    have := he.mlt _ (List.fst_mem_of_mem_zipIdx hm1)
    show tkey h1 m1 s1 < tkey h2 m2 s2
    unfold tkey; simp only at hlt; omega

/-! ### `make_enum` -/

def sel (l : List Nat) (a : Nat) : List Nat := if l.isEmpty then [a % 256] else l.map (· % 256)

/-- next to a DATE value BYHOUR / BYMINUTE / BYSECOND are ignored -/
theorem makeEnum_allDay (p : Inst) (r : Rule) (h : p.H = allDay) :
    makeEnum p r = ⟨[p.H % 256], [p.M % 256], [p.S % 256]⟩ := by
  unfold makeEnum; rw [if_pos h]

theorem makeEnum_timed (p : Inst) (r : Rule) (h : p.H ≠ allDay) :
    makeEnum p r = ⟨sel r.H p.H, sel r.M p.M, sel r.S p.S⟩ := by
  unfold makeEnum; rw [if_neg h]; rfl

theorem mem_sel {l : List Nat} {a x : Nat} (h : x ∈ sel l a) : (l = [] ∧ x = a % 256) ∨ (∃ b ∈ l, x = b % 256) := by
  unfold sel at h
  cases l with
  | nil => simp only [List.isEmpty_nil, if_true, List.mem_singleton] at h; exact Or.inl ⟨rfl, h⟩
  | cons c cs =>
    simp only [List.isEmpty_cons, Bool.false_eq_true, if_false] at h
    obtain ⟨b, hb, he⟩ := List.mem_map.1 h
    exact Or.inr ⟨b, hb, he.symm⟩

theorem sel_nil (a : Nat) : sel [] a = [a % 256] := rfl

theorem pw_sel {R : Nat → Nat → Prop} {l : List Nat} (a : Nat) (h : l.Pairwise (fun x y => R (x % 256) (y % 256))) :
    (sel l a).Pairwise R := by
  unfold sel
  split
  · exact List.pairwise_singleton _ _
  · rw [List.pairwise_map]; exact h

theorem makeEnum_ok (r : Rule) (p : Inst) (hr : WfRule r) (hp : WfInst p) : EnumOk (makeEnum p r) := by
  rcases hp.time with ⟨h1, h2, h3⟩ | ⟨h1, h2, h3⟩
  · rw [makeEnum_allDay p r h1, h1, h2, h3]
    refine ⟨List.pairwise_singleton _ _, List.pairwise_singleton _ _, List.pairwise_singleton _ _, ?_, ?_, ?_⟩
    · intro mi hmi; rw [List.mem_singleton.1 hmi]; decide
    · intro s hs; rw [List.mem_singleton.1 hs]; decide
    · intro h hh; rw [List.mem_singleton.1 hh]; exact Or.inr ⟨by decide, rfl, rfl⟩
  have hnd : p.H ≠ allDay := by unfold allDay; omega
  rw [makeEnum_timed p r hnd]
  refine ⟨?_, ?_, ?_, ?_, ?_, ?_⟩
  · refine pw_sel _ (hr.hours.1.imp_of_mem ?_)
    intro a b ha hb hlt
    have := hr.hours.2 a ha; have := hr.hours.2 b hb; omega
  · refine pw_sel _ (hr.mins.1.imp_of_mem ?_)
    intro a b ha hb hlt
    have := hr.mins.2 a ha; have := hr.mins.2 b hb; omega
  · refine pw_sel _ (hr.secs.1.imp_of_mem ?_)
    intro a b ha hb hlt
    have := hr.secs.2 a ha; have := hr.secs.2 b hb; omega
  · intro mi hmi
    rcases mem_sel hmi with ⟨_, h⟩ | ⟨b, hb, h⟩
    · omega
    · have := hr.mins.2 b hb; omega
  · intro s hs
    rcases mem_sel hs with ⟨_, h⟩ | ⟨b, hb, h⟩
    · omega
    · have := hr.secs.2 b hb; omega
  · intro h hh
    left
    rcases mem_sel hh with ⟨hnil, h⟩ | ⟨b, hb, h⟩
    · omega
    · have := hr.hours.2 b hb; omega

end Echse.Lemmas.RrOkBase
