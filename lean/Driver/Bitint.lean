import Echse.Model.Bitint
import Driver.Util
open Echse.Bitint
namespace Driver

def showIt {α} [ToString α] : Option (List α) → String
  | some xs => showList xs
  | none => showList ([] : List α) ++ "!"

/-- `bui31 x…`, `bui63 x…`, `bi31 x…`, `bi63 x…`, `bi383 x…`, `bi447 x…` -/
def runBitint (kind : String) (args : List String) : String :=
  match kind with
  | "bui31" | "bui63" =>
    let w := if kind == "bui31" then 32 else 64
    match parseNats args with
    | none => "bad-op"
    | some xs =>
      let bi := xs.foldl (assBui w) 0
      let it := buiIterate w bi 200 0
      -- bitint.h has a membership test for the 31 flavour only; for 63 the harness
      -- (and hence the model) reports membership as seen through iteration
      let has := (List.range (w - 1)).map fun x =>
        if w == 32 then buiHasBit bi x else (it.getD []).contains x
      s!"it={showIt it} has={bits has}"
  | "bi31" | "bi63" =>
    let w := if kind == "bi31" then 32 else 64
    match parseInts args with
    | none => "bad-op"
    | some xs =>
      let bi := xs.foldl (assBi w) ⟨0, 0⟩
      let it := biIterate w bi 200 0
      let rng : List Int := (List.range (2 * w - 1)).map fun (i : Nat) => (Int.ofNat i) - Int.ofNat (w - 1)
      let has := rng.map fun x =>
        if w == 32 then biHasBit w bi x else (it.getD []).contains x
      s!"it={showIt it} has={bits has}"
  | "bi383" | "bi447" =>
    let n := if kind == "bi383" then 12 else 14
    match parseInts args with
    | none => "bad-op"
    | some xs =>
      let bi := xs.foldl (assBig n) Big.empty
      let it := bigIterate n bi 1000 0
      s!"it={showIt it}"
  | _ => "bad-op"

end Driver
