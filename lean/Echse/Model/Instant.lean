/-
  Model of src/instant.h, src/instant.c (fixup / diff / add, ordering predicates),
  src/tzob.c `__inst_to_epoch` / `__epoch_to_inst`, src/echsd.c `instant_to_tstamp`.

  Hand transcription (statement by statement), tables taken from the generated
  `Echse.Gen.Tables`.  Tied to the C code by the correspondence check (vlib/p_C08.py).

  An instant is the 64-bit union of instant.h, little endian:
    ms:10 | S:6 | M:8 | H:8 | d:8 | m:8 | y:16     (from bit 0)
  The model keeps the fields apart; every assignment to a field truncates to the
  field's width exactly as the bit-field assignment does.

  Domain of the model: `y ≥ 1601` (the C code's `year - 1601` is unsigned).
-/
import Echse.Gen.Tables
namespace Echse.Instant
open Echse.Gen

structure Inst where
  y : Nat
  m : Nat
  d : Nat
  H : Nat
  M : Nat
  S : Nat
  ms : Nat
deriving DecidableEq, Repr, Inhabited

def allDay : Nat := 255      -- ECHS_ALL_DAY
def allSec : Nat := 1023     -- ECHS_ALL_SEC

def Inst.pack (i : Inst) : Nat :=
  i.ms % 1024 + (i.S % 64) * 2^10 + (i.M % 256) * 2^16 + (i.H % 256) * 2^24 +
  (i.d % 256) * 2^32 + (i.m % 256) * 2^40 + (i.y % 65536) * 2^48

def Inst.unpack (u : Nat) : Inst :=
  { ms := u % 1024, S := u / 2^10 % 64, M := u / 2^16 % 256, H := u / 2^24 % 256,
    d := u / 2^32 % 256, m := u / 2^40 % 256, y := u / 2^48 % 65536 }

def Inst.isAllDay (i : Inst) : Bool := i.H == allDay
def Inst.isAllSec (i : Inst) : Bool := i.ms == allSec

/-- `echs_instant_lt_p`: `x.H++, x.ms++` wrap inside their fields, then the words are compared. -/
def bump (i : Inst) : Inst := { i with H := (i.H + 1) % 256, ms := (i.ms + 1) % 1024 }
def ltP (x y : Inst) : Bool := (bump x).pack < (bump y).pack
def leP (x y : Inst) : Bool := !((bump x).pack > (bump y).pack)

/-- `__get_mdays` -/
def getMdays (y m : Nat) : Nat :=
  instMdays.getD m 0 + (if y % 4 = 0 ∧ m = 2 then 1 else 0)

/-- `__doy` -/
def doyOf (i : Inst) : Nat :=
  instDoy.getD i.m 0 + i.d + (if i.y % 4 = 0 ∧ i.m ≥ 3 then 1 else 0)

/-- `__jan00` (for `year ≥ 1601`) -/
def jan00 (year : Nat) : Nat :=
  let by0 := year - 1601
  by0 * 365 + by0 / 4 - by0 / 100 + by0 / 400

/-! ### `echs_instant_fixup` -/

/-- the `refix_ym` loop: month overflow, then day overflow, repeated. -/
def fixupYmd : Nat → Inst → Inst
  | 0, e => e
  | fuel+1, e =>
    let e := if e.m > 12 then { e with m := (e.m - 1) % 12 + 1, y := (e.y + (e.m - 1) / 12) % 65536 } else e
    let md := getMdays e.y e.m
    if e.d > md then fixupYmd fuel { e with d := e.d - md, m := (e.m + 1) % 256 }
    else e

def fixupHMS (e : Inst) : Inst :=
  let e := if e.S ≥ 60 then { e with S := e.S % 60, M := (e.M + e.S / 60) % 256 } else e
  let e := if e.M ≥ 60 then { e with M := e.M % 60, H := (e.H + e.M / 60) % 256 } else e
  if e.H ≥ 24 then { e with H := e.H % 24, d := (e.d + e.H / 24) % 256 } else e

def fixup (e : Inst) : Inst :=
  if e.isAllDay then fixupYmd 300 e
  else if e.isAllSec then fixupYmd 300 (fixupHMS e)
  else
    let e := if e.ms ≥ 1000 then { e with ms := e.ms % 1000, S := (e.S + e.ms / 1000) % 64 } else e
    fixupYmd 300 (fixupHMS e)

/-! ### `echs_instant_diff` (end − beg, milliseconds) -/

/-- `HOUR_OF`: a day as such begins at midnight -/
def hourOf (i : Inst) : Int := if i.isAllDay then 0 else (i.H : Nat)
/-- `MSEC_OF`: a second as such begins with its first millisecond (`echs_instant_all_sec_p`: ms = 1023) -/
def msecOf (i : Inst) : Int := if i.isAllDay || i.ms == allSec then 0 else (i.ms : Nat)

def diff (e b : Inst) : Int :=
  let intra : Int :=
    (((hourOf e - hourOf b) * 60 + ((e.M : Int) - b.M)) * 60 + ((e.S : Int) - b.S)) * 1000 + (msecOf e - msecOf b)
  let (intra, extra) : Int × Int :=
    if intra < 0 then (intra + 86400000, -1)
    else if intra < 86400000 then (intra, 0)
    else (intra, 1)
  let extra := extra + ((jan00 e.y : Int) - jan00 b.y) + ((doyOf e : Int) - doyOf b)
  extra * 86400000 + intra

/-! ### `echs_instant_add` -/

/-- one carry stage: `car = (f + msd) / n; cdr = (f + msd) % n` with C's truncating division. -/
def carry (f : Nat) (msd : Int) (n : Int) : Nat × Int :=
  let car := ((f : Int) + msd).tdiv n
  let cdr := ((f : Int) + msd).tmod n
  if cdr ≥ 0 then (cdr.toNat, car) else ((cdr + n).toNat, car - 1)

/-- `do { if (--m < 1) { --y; m = 12; } d += mdays(y, m); } while (d < 1);` -/
def addDown : Nat → Int → Int → Int → Int × Int × Int
  | 0, y, m, d => (y, m, d)
  | fuel+1, y, m, d =>
    let (y, m) := if m - 1 < 1 then (y - 1, (12 : Int)) else (y, m - 1)
    let d := d + getMdays y.toNat m.toNat
    if d < 1 then addDown fuel y m d else (y, m, d)

/-- `while (d > (mdays = mdays(y, m))) { d -= mdays; if (++m > 12) { ++y; m = 1; } }` -/
def addUp : Nat → Int → Int → Int → Int × Int × Int
  | 0, y, m, d => (y, m, d)
  | fuel+1, y, m, d =>
    let md : Int := getMdays y.toNat m.toNat
    if d > md then
      let (y, m) := if m + 1 > 12 then (y + 1, (1 : Int)) else (y, m + 1)
      addUp fuel y m (d - md)
    else (y, m, d)

/-- the day adjustment block behind `fixup_d:` -/
def addDays (bas res : Inst) (dd : Int) : Inst :=
  let y : Int := bas.y
  let m : Int := bas.m
  let d : Int := (bas.d : Int) + dd
  let fuel := d.natAbs / 28 + 2
  let (y, m, d) :=
    if 1 ≤ d ∧ d ≤ 28 then (y, m, d)
    else if d < 1 then addDown fuel y m d
    else addUp fuel y m d
  { res with d := (d % 256).toNat, m := (m % 256).toNat, y := (y % 65536).toNat }

def add (bas : Inst) (a : Int) : Inst :=
  let dd := a.tdiv 86400000
  let msd := a.tmod 86400000
  if bas.isAllDay then addDays bas bas dd
  else
    let (res, msd) : Inst × Int :=
      if bas.isAllSec then (bas, msd.tdiv 1000)
      else
        let (ms, car) := carry bas.ms msd 1000
        ({ bas with ms := ms }, car)
    let (s, car) := carry res.S msd 60
    let res := { res with S := s % 64 }
    let (mi, car) := carry res.M car 60
    let res := { res with M := mi % 256 }
    let (h, car) := carry res.H car 24
    let res := { res with H := h % 256 }
    let dd := dd + car
    if dd ≠ 0 then addDays bas res dd else res

/-! ### epoch conversions -/

/-- tzob.c `__inst_to_epoch`: seconds since the unix epoch, negative before 1970.  Years run from March to February and
count from 1948, backwards before it (`by` is an `int`, the day count a `long`; the C spells the floor division out for
negative years). -/
def instToEpoch (i : Inst) : Int :=
  let by0 : Int := (i.y : Int) - (daisyBaseYear : Nat) - (if i.m < 3 then 1 else 0)
  let j0 : Int := by0 * 365 + by0 / 4
  let yd : Int := if i.m ≤ 12 then ((tzobMonYday.getD i.m 0 + i.d : Nat) : Int) else 0
  let h : Int := if i.H ≤ 24 then (i.H : Nat) else 24
  (((j0 + yd - (daisyUnixBase : Nat)) * 24 + h) * 60 + (i.M : Nat)) * 60 + (i.S : Nat)

/-- tzob.c `__epoch_to_inst`: the day number is counted from 1900-03-01 (12 leap cycles = 17532 days = 48 years before
the base year) so that it is not negative for the dates of the last century; `d` is an `unsigned int` -/
def epochToInstI (t : Int) : Inst :=
  let w : Nat := 2^32
  let dd : Int := t / 86400
  let d : Nat := ((dd + (daisyUnixBase : Nat) + 17532) % (w : Int)).toNat
  let s : Nat := (t - dd * 86400).toNat
  let u32 (z : Int) : Nat := (z % (w : Int)).toNat
  let by0 := d / 365
  let f0 := (by0 * 365 + by0 / 4) % w
  let (by0, f0) :=
    if f0 ≥ d then
      let b := u32 ((by0 : Int) - 1)
      (b, (b * 365 + b / 4) % w)
    else (by0, f0)
  let doy := u32 ((d : Int) - f0)
  let mon := ((doy + 19) % w) / 32
  let dom := ((doy + 19) % w) % 32
  let beef : Int := tzobRem.getD mon 0
  let cake : Int := tzobRem.getD (mon + 1) 0
  let (mon, dom) :=
    if (dom : Int) ≤ cake then (mon, u32 ((doy : Int) - (((mon : Int) - 1) * 32 - 19 + beef)))
    else (mon + 1, u32 ((doy : Int) - ((mon : Int) * 32 - 19 + cake)))
  { y := (by0 + daisyBaseYear - 48 + (if mon > 10 then 1 else 0)) % 65536,
    m := tzobRm.getD mon 0, d := dom % 256,
    S := s % 60, M := s / 60 % 60, H := (s / 3600) % 256, ms := allSec }

/-- the same for a time that is not negative -/
def epochToInst (t : Nat) : Inst := epochToInstI t

/-- echsd.c `instant_to_tstamp` (seconds since the unix epoch, negative before 1970): days since 2001-01-01 with the
Gregorian leap rule in both directions (`FDIV` is floor division, as `/` on `Int` with a positive divisor). -/
def instToTstamp (i : Inst) : Int :=
  let y : Int := (i.y : Int) - 2001
  let leap : Bool := i.y % 4 == 0 && (i.y % 100 != 0 || i.y % 400 == 0)
  let nd : Int := 365 * y + y / 4 - y / 100 + y / 400 +
    (echsdMonYday.getD i.m 0 : Nat) + (i.d : Nat) + (if leap && decide (i.m ≥ 3) then 1 else 0)
  let t : Int := if i.isAllDay then nd * 86400 else ((nd * 24 + (i.H : Nat)) * 60 + (i.M : Nat)) * 60 + (i.S : Nat)
  t + (echsdEpochDays : Nat) * 86400

end Echse.Instant
