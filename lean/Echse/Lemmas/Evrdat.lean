/-
  Lemmas for C02, section "the RDATE / EXDATE lists as one stream": `makeEvrdat` (Model/Evrdat.lean) is the sorted
  list of the souped instants with adjacent repeats removed.  The order of instants is induced by the key
  `pk x = (bump x).pack`; strict ascent needs (and only needs) that key to be injective on the list.
-/
import Echse.Model.Evrdat
import Echse.Props.C20
import Echse.Props.C08
namespace Echse.Evrdat
open Echse.Instant Echse.Sort

/-- the word `echs_instant_lt_p` compares -/
def pk (x : Inst) : Nat := (bump x).pack

theorem ltP_pk : ∀ a b, ltP a b = decide (pk a < pk b) := fun _ _ => rfl

/-- the key tells the instants of `l` apart -/
def KeyInj (l : List Inst) : Prop := ∀ x ∈ l, ∀ y ∈ l, pk x = pk y → x = y

theorem keyInj_of_fits (l : List Inst) (hf : ∀ x ∈ l, C08.Fits x) : KeyInj l := by
  intro x hx y hy e
  apply C08.ltP_incomp_eq x y (hf x hx) (hf y hy)
  simp only [ltP_pk, decide_eq_false_iff_not]
  omega

/-! ### soup -/

theorem soup_date (b w : Inst) (h : w.H = allDay) :
    (soup b w).y = w.y ∧ (soup b w).m = w.m ∧ (soup b w).d = w.d ∧
    (soup b w).H = b.H ∧ (soup b w).M = b.M ∧ (soup b w).S = b.S ∧ (soup b w).ms = b.ms := by
  simp [soup, h]

theorem soup_timed (b w : Inst) (h : w.H ≠ allDay) : soup b w = w := by
  simp [soup, h]

/-! ### dropping adjacent repeats -/

theorem mem_of_mem_dedupGo (x : Inst) : ∀ (l : List Inst) (last : Inst), x ∈ dedupGo last l → x ∈ l
  | [], _, h => by simp [dedupGo] at h
  | y :: r, last, h => by
    unfold dedupGo at h
    split at h
    · exact List.mem_cons_of_mem _ (mem_of_mem_dedupGo x r last h)
    · rcases List.mem_cons.mp h with e | h'
      · exact e ▸ List.mem_cons_self
      · exact List.mem_cons_of_mem _ (mem_of_mem_dedupGo x r y h')

theorem mem_dedupGo_of_mem (x : Inst) : ∀ (l : List Inst) (last : Inst), x ∈ l → x = last ∨ x ∈ dedupGo last l
  | [], _, h => by simp at h
  | y :: r, last, h => by
    unfold dedupGo
    split
    next e =>
      rcases List.mem_cons.mp h with e' | h'
      · exact Or.inl (e'.trans e)
      · exact mem_dedupGo_of_mem x r last h'
    next ne =>
      right
      rcases List.mem_cons.mp h with e' | h'
      · exact e' ▸ List.mem_cons_self
      · rcases mem_dedupGo_of_mem x r y h' with e | m
        · exact e ▸ List.mem_cons_self
        · exact List.mem_cons_of_mem _ m

theorem mem_dedupAdj (x : Inst) (l : List Inst) : x ∈ dedupAdj l ↔ x ∈ l := by
  cases l with
  | nil => simp [dedupAdj]
  | cons a r =>
    unfold dedupAdj
    constructor
    · intro h
      rcases List.mem_cons.mp h with e | h'
      · exact e ▸ List.mem_cons_self
      · exact List.mem_cons_of_mem _ (mem_of_mem_dedupGo x r a h')
    · intro h
      rcases List.mem_cons.mp h with e | h'
      · exact e ▸ List.mem_cons_self
      · rcases mem_dedupGo_of_mem x r a h' with e | m
        · exact e ▸ List.mem_cons_self
        · exact List.mem_cons_of_mem _ m

theorem dedupGo_ascending : ∀ (l : List Inst) (last : Inst), KeyInj (last :: l) →
    (last :: l).Pairwise (fun a b => pk a ≤ pk b) →
    (last :: dedupGo last l).Pairwise (fun a b => pk a < pk b)
  | [], last, _, _ => by simp [dedupGo]
  | y :: r, last, inj, hs => by
    have hs' := List.pairwise_cons.mp hs
    have hr := List.pairwise_cons.mp hs'.2
    unfold dedupGo
    split
    next e =>
      subst e
      apply dedupGo_ascending r y _ hs'.2
      intro a ha b hb
      exact inj a (List.mem_cons_of_mem _ ha) b (List.mem_cons_of_mem _ hb)
    next ne =>
      have ih := dedupGo_ascending r y
        (fun a ha b hb => inj a (List.mem_cons_of_mem _ ha) b (List.mem_cons_of_mem _ hb)) hs'.2
      have hly : pk last < pk y := by
        have h1 := hs'.1 y List.mem_cons_self
        have h2 : pk last ≠ pk y := fun e =>
          ne (inj last List.mem_cons_self y (List.mem_cons_of_mem _ List.mem_cons_self) e).symm
        omega
      refine List.pairwise_cons.mpr ⟨?_, ih⟩
      intro z hz
      rcases List.mem_cons.mp hz with e | hz'
      · exact e ▸ hly
      · have := hr.1 z (mem_of_mem_dedupGo z r y hz')
        omega

theorem dedupAdj_ascending (l : List Inst) (inj : KeyInj l) (hs : l.Pairwise (fun a b => pk a ≤ pk b)) :
    (dedupAdj l).Pairwise (fun a b => ltP a b = true) := by
  cases l with
  | nil => simp [dedupAdj]
  | cons a r =>
    unfold dedupAdj
    refine (dedupGo_ascending r a inj hs).imp ?_
    intro x y h
    simp [ltP_pk, h]

/-! ### the stream -/

theorem makeEvrdat_eq (dtstart : Inst) (ds : List Inst) (h : ds.length < 1024) :
    makeEvrdat dtstart ds = dedupAdj (stableSort ltP (ds.map (soup dtstart))) := by
  have hw := (C20.wikiSort_small ltP pk ltP_pk (ds.map (soup dtstart)) (by simpa using h)).2.1
  match ds with
  | [] => rfl
  | [d] => rfl
  | _ :: _ :: _ => unfold makeEvrdat; rw [hw]

theorem makeEvrdat_mem (dtstart : Inst) (ds : List Inst) (h : ds.length < 1024) (x : Inst) :
    x ∈ makeEvrdat dtstart ds ↔ x ∈ ds.map (soup dtstart) := by
  rw [makeEvrdat_eq dtstart ds h, mem_dedupAdj]
  exact (C20.stableSort_perm ltP pk ltP_pk _).mem_iff

theorem makeEvrdat_ascending (dtstart : Inst) (ds : List Inst) (h : ds.length < 1024)
    (inj : KeyInj (ds.map (soup dtstart))) :
    (makeEvrdat dtstart ds).Pairwise (fun a b => ltP a b = true) := by
  rw [makeEvrdat_eq dtstart ds h]
  apply dedupAdj_ascending _ _ (C20.stableSort_sorted ltP pk ltP_pk _)
  intro x hx y hy
  have p := C20.stableSort_perm ltP pk ltP_pk (ds.map (soup dtstart))
  exact inj x (p.mem_iff.mp hx) y (p.mem_iff.mp hy)

/-- the hypothesis of `makeEvrdat_ascending` is necessary -/
theorem keyInj_of_ascending (dtstart : Inst) (ds : List Inst) (h : ds.length < 1024)
    (ha : (makeEvrdat dtstart ds).Pairwise (fun a b => ltP a b = true)) : KeyInj (ds.map (soup dtstart)) := by
  intro x hx y hy e
  have := List.Pairwise.forall_of_forall_of_flip (l := makeEvrdat dtstart ds)
    (R := fun a b => a ≠ b → (ltP a b = true ∨ ltP b a = true))
    (fun a _ n => absurd rfl n) (ha.imp (fun h _ => Or.inl h)) (ha.imp (fun h _ => Or.inr h)) ((makeEvrdat_mem dtstart ds h x).mpr hx) ((makeEvrdat_mem dtstart ds h y).mpr hy)
  apply Decidable.byContradiction
  intro n
  have := this n
  simp only [ltP_pk, decide_eq_true_eq] at this
  omega

theorem nodup_of_ascending (l : List Inst) (h : l.Pairwise (fun a b => ltP a b = true)) : l.Nodup := by
  refine h.imp ?_
  intro a b hab e
  subst e
  simp [ltP_pk] at hab

end Echse.Evrdat
