"""C09 — every rule terminates and stays in bounds; empty sets end the stream.

Hostile and odd RRULE texts (whatever the parser accepts) go through the real parser and rule stream in the
ASan/UBSan harness with a work budget per stream: no crash, no sanitizer report, no hang; rules whose recurrence
set is empty (by the RFC 5545 reference expander) must answer end-of-stream.  The same texts inside calendars go
through the whole parser (RRULE, several RRULEs, EXRULE, RDATE).  Filler calls also go through the Lean models,
whose loops carry explicit fuel: the C09 theorems show the fuel is never what ends them.
"""
import collections
import time

from . import common, p_strm, p_rr, p_rrfill, rfc5545, rrgen
from .common import hex16

BUDGET = 5.0        # seconds of work allowed per stream (200 occurrences) under ASan/UBSan at -O1


def hostile_rule(rng):
    freq = rng.choice(rfc5545.FREQS)
    p = ["FREQ=" + freq]
    pick = rng.random

    def some(lo, hi, kmax, neg=False, zero=False):
        out = []
        for _ in range(rng.randint(1, kmax)):
            v = rng.choice([lo, hi, rng.randint(lo, hi), rng.randint(lo, hi)])
            if neg and pick() < 0.4:
                v = -v
            out.append(v)
        if zero and pick() < 0.1:
            out.append(0)
        return ",".join(map(str, out))
    if pick() < 0.6:
        p.append("INTERVAL=%s" % rng.choice([1, 2, 7, 24, 60, 61, 1440, 86400, 100000, 2147483647, 4294967295, 4294967296, 0, -1,
                                              rng.randint(1, 100000)]))
    if pick() < 0.3:
        p.append("COUNT=%s" % rng.choice([1, 63, 64, 65, 128, 129, 1000000, 0, -5, 4294967297, rng.randint(1, 300)]))
    if pick() < 0.3:
        p.append("UNTIL=%s" % rng.choice(["20991231T235959Z", "19020101", "21000101T000000Z", "20200230", "00000000", "99999999T999999Z",
                                          "20240229T120000Z", "2024", "x"]))
    big = pick() < 0.25
    if pick() < 0.5:
        p.append("BYMONTH=" + some(1, 12, 12 if big else 3, zero=True))
    if pick() < 0.4:
        p.append("BYMONTHDAY=" + some(1, 31, 31 if big else 4, neg=True, zero=True))
    if pick() < 0.3:
        p.append("BYYEARDAY=" + some(1, 366, 40 if big else 3, neg=True, zero=True))
    if pick() < 0.3:
        p.append("BYWEEKNO=" + some(1, 53, 20 if big else 3, neg=True, zero=True))
    if pick() < 0.5:
        days = []
        for _ in range(rng.randint(1, 40 if big else 3)):        # more than the 14 natively stored values of a bitint447
            o = rng.choice(["", "", "1", "-1", "5", "-5", "53", "-53", "54", "0", str(rng.randint(-60, 60))])
            days.append(o + rng.choice(rfc5545.WD + ["XX"]))
        p.append("BYDAY=" + ",".join(days))
    if pick() < 0.4:
        p.append("BYHOUR=" + (",".join(map(str, range(0, 25))) if big else some(0, 24, 4)))
    if pick() < 0.4:
        p.append("BYMINUTE=" + (",".join(map(str, range(0, 61))) if big else some(0, 60, 4)))
    if pick() < 0.4:
        p.append("BYSECOND=" + (",".join(map(str, range(0, 62))) if big else some(0, 61, 4)))
    if pick() < 0.3:
        p.append("BYSETPOS=" + some(1, 366, 30 if big else 6, neg=True, zero=True))     # bitint383: 12 native slots
    if pick() < 0.2:
        p.append("BYEASTER=" + some(0, 366, 30 if big else 4, neg=True))
    if pick() < 0.25:
        p.append("SHIFT=" + rng.choice(["1", "-366", "366", "32767", "-32768", "1B", "-0B", "9999B", "-9999B-", "3,4B+", "B", "1,2,3", "x"]))
    if pick() < 0.1:
        p.append("SCALE=" + rng.choice(["HIJRI", "GREGORIAN", "BOGUS"]))
    rng.shuffle(p)
    t = ";".join(p)
    if pick() < 0.15:
        b = bytearray(t.encode())
        for _ in range(rng.randint(1, 4)):
            b[rng.randrange(len(b))] = rng.choice(b";=,-0123456789BYx\x80 ")
        t = b.decode("latin-1")
    return t


def hostile_dtstart(rng):
    z = rng.random()
    if z < 0.6:
        ds = rrgen.gen_dtstart(rng)
        return rrgen.dtstart_text(ds)
    return rng.choice(["20991231T235959", "20991231", "19020101T000000", "19000228", "21000101", "20240229T235959", "20230230", "20231301",
                       "00010101", "40950101T000000", "20240101T240000", "20240101T236060", "14401501T090000", "14401901", "14400039",
                       "14401232T000000", "14450101T120000", "15100101", "13420101", "14441230T235959", "20241901", "20240039"])


def run(ctx):
    rng = ctx.rng
    thorough = ctx.tier == "thorough"
    exe = p_strm.build(ctx)
    n = 6000 if thorough else 1200
    texts = [hostile_rule(rng) for _ in range(n)]
    # a share of well-formed rules whose emptiness the reference can judge
    wf = []
    for _ in range(n // 4):
        ds = rrgen.gen_dtstart(rng)
        r = rrgen.gen_rule(rng, ds)
        # make many of them incongruent
        if rng.random() < 0.5:
            r.interval = rng.choice([7, 12, 24, 60, 28, 400])
        wf.append((ds, r))
    for l in common.load_corpus("C09"):
        texts.append(bytes.fromhex(l).decode("latin-1"))
    structs, st, err = ctx.impl(exe, ["r.parse " + t.encode("latin-1").hex() for t in texts] +
                                ["r.parse " + r.text().encode().hex() for _, r in wf])
    fails = []
    if st != "ok":
        k = len(structs)
        fails.append(("r.parse " + (texts + [r.text() for _, r in wf])[min(k, len(texts) + len(wf) - 1)].encode("latin-1").hex(),
                      "the rule parser %s: %s" % (st, err[-300:])))
    accepted = [i for i, s in enumerate(structs[:len(texts)]) if s.startswith("freq=") and not s.startswith("freq=0 ")]
    ops = []
    for i in accepted:
        ops.append("r.strm %s | ds=%s n=200" % (structs[i], hostile_dtstart(rng)))
    wfops = []
    for k, (ds, r) in enumerate(wf):
        s = structs[len(texts) + k] if len(texts) + k < len(structs) else None
        if s:
            wfops.append("r.strm %s | from=%s n=200" % (s, p_rrfill.proto_hex(ds)))
    t0 = time.time()
    slow = []
    impl = []
    # batches, so that the time per stream can be bounded
    allops = ops + wfops
    B = 40
    status = collections.Counter()
    for b in range(0, len(allops), B):
        chunk = allops[b:b + B]
        t1 = time.time()
        out, st, err = ctx.impl(exe, chunk, timeout=BUDGET * len(chunk))
        el = time.time() - t1
        impl += out + ["<no answer>"] * (len(chunk) - len(out))
        status[st] += 1
        for k, a in enumerate(out):
            if a.startswith("<"):
                fails.append((chunk[k], "rule stream %s  (%s)" % (a[:200], chunk[k][:160])))
        if el > BUDGET * len(chunk) * 0.5:
            slow.append((el, chunk[0]))
    wall = time.time() - t0
    # empty recurrence sets must say so
    empties = 0
    for k, (ds, r) in enumerate(wf):
        j = len(ops) + k
        if j >= len(impl) or impl[j].startswith("<"):
            continue
        exp, why = rfc5545.expand(ds, r, 5, p_rr.HORIZON)
        if not exp and why in ("horizon", "until", "count"):
            empties += 1
            got, gend = p_rr.decode(impl[j])
            got = [t for t in got if t[0] <= p_rr.HORIZON]
            if got or not gend:
                fails.append((wfops[k], "DTSTART:%s RRULE:%s has no occurrence up to 2099, the stream answers %s%s" % (
                    rrgen.dtstart_text(ds), r.text(), got[:3], "" if gend else " and does not end")))
    # whole calendars with hostile rule lines
    cals = []
    for i in range(300 if thorough else 80):
        par = rng.choice(["", "", "", ";SCALE=HIJRI", ";SCALE=HIJRI.IA", ";SCALE=HIJRI.DIYANET", ";TZID=Europe/Berlin", ";VALUE=DATE",
                          ";SCALE=HIJRI.IVC;TZID=Asia/Kolkata"])
        lines = ["BEGIN:VCALENDAR", "BEGIN:VEVENT", "UID:h%d" % i, "SUMMARY:x", "DTSTART%s:%s" % (par, hostile_dtstart(rng))]
        for _ in range(rng.randint(1, 3)):
            lines.append(rng.choice(["RRULE:", "RRULE:", "EXRULE:", "X-GA-MRULE:"]) + rng.choice(texts))
        if rng.random() < 0.4:
            lines.append("RDATE:" + ",".join(hostile_dtstart(rng) for _ in range(rng.randint(1, 70))))
        if rng.random() < 0.3:
            lines.append("EXDATE:" + ",".join(hostile_dtstart(rng) for _ in range(rng.randint(1, 5))))
        lines += ["END:VEVENT", "END:VCALENDAR", ""]
        cals.append("p.parse " + "\n".join(lines).encode("latin-1").hex())
    # dates no calendar has, in the scales whose tables they would index
    for par, dsx in ((";SCALE=HIJRI.IA", "14401501T090000"), (";SCALE=HIJRI", "14401901"), (";SCALE=HIJRI.DIYANET", "14400039"),
                     (";SCALE=HIJRI.IVC", "14401232T000000"), ("", "20241501T090000Z"), (";SCALE=HIJRI.IIIA", "14401900T000000")):
        for rule in ("FREQ=DAILY;COUNT=3", "FREQ=MONTHLY;COUNT=3;SCALE=HIJRI", "FREQ=YEARLY;BYMONTHDAY=1;SHIFT=3"):
            cals.append("p.parse " + ("BEGIN:VCALENDAR\nBEGIN:VEVENT\nUID:a\nSUMMARY:x\nDTSTART%s:%s\nRRULE:%s\nEND:VEVENT\nEND:VCALENDAR\n"
                                      % (par, dsx, rule)).encode().hex())
    pimpl, pst, perr = ctx.impl(exe, cals, timeout=BUDGET * len(cals))
    for k, a in enumerate(pimpl):
        if a.startswith("<"):
            fails.append((cals[k], "the calendar parser %s" % a[:200]))
    # rules as filters (echse unroll --filter): dense rules fill the filter's whitelist to the brim
    import datetime as _dt
    mops = []
    for txt in ("FREQ=YEARLY;BYMONTHDAY=" + ",".join(map(str, range(1, 32))), "FREQ=YEARLY;BYDAY=MO,TU,WE,TH,FR,SA,SU",
                "FREQ=YEARLY;BYYEARDAY=" + ",".join(map(str, range(1, 367, 1)))[:900].rsplit(",", 1)[0], "FREQ=YEARLY;BYMONTH=1,2,3,4,5,6,7,8,9,10,11,12;BYMONTHDAY=-1,-2,-3,1,2,3,4,5,6,7,8,9,10,11,12,13,14,15,16,17,18,19,20",
                "FREQ=YEARLY;BYMONTHDAY=15;BYHOUR=9"):
        st1, _, _ = ctx.impl(exe, ["r.parse " + txt.encode().hex()])
        if not st1 or not st1[0].startswith("freq="):
            continue
        d0 = _dt.date(rng.randint(1990, 2060), 1, 1)
        days = [d0 + _dt.timedelta(days=k) for k in range(0, 800, rng.choice([1, 1, 2]))]
        mops.append("r.match %s | %s" % (st1[0], " ".join(common.hex16(x.year, x.month, x.day, 255, 0, 0, 0) for x in days)))
    mimpl, mst, merr = ctx.impl(exe, mops, timeout=120)
    for k, a in enumerate(mimpl):
        if a.startswith("<"):
            fails.append((mops[k][:300], "the rule used as a filter: %s" % a[:200]))
    # ... and a filter with more instants on one day than the whitelist holds, asked about times of day later than those
    for txt in ("FREQ=YEARLY;BYDAY=MO,TU,WE,TH,FR,SA,SU;BYHOUR=" + ",".join(map(str, range(24))) + ";BYMINUTE=" + ",".join(map(str, range(30))),
                "FREQ=YEARLY;BYMONTHDAY=" + ",".join(map(str, range(1, 29))) + ";BYHOUR=0,1,2,3,4,5;BYMINUTE=" + ",".join(map(str, range(60)))):
        st1, _, _ = ctx.impl(exe, ["r.parse " + txt.encode().hex()])
        if not st1 or not st1[0].startswith("freq="):
            continue
        d0 = _dt.date(rng.randint(1990, 2060), rng.randint(1, 12), rng.randint(2, 20))
        op = "r.match %s | %s" % (st1[0], " ".join(common.hex16(x.year, x.month, x.day, 22, 15, 0, 1023) for x in (d0 + _dt.timedelta(days=k) for k in range(6))))
        a, st_, _ = ctx.impl(exe, [op], timeout=25, max_restarts=0)
        if not a or a[0].startswith("<"):
            fails.append((op[:400], "the rule `%s' used as a filter (echse unroll --filter) on instants at 22:15: %s" % (txt[:60] + "...", (a[0] if a else st_)[:100])))
    # a rule whose every occurrence is excluded: the filter looks at them one by one (recorded finding, class exrule-all)
    cal = "BEGIN:VCALENDAR\nBEGIN:VEVENT\nUID:x\nSUMMARY:x\nDTSTART:20200315T100000Z\nRRULE:FREQ=SECONDLY\nEXRULE:FREQ=SECONDLY\nEND:VEVENT\nEND:VCALENDAR\n"
    xop = "p.occ %s 1" % cal.encode().hex()
    xa, xst, _ = ctx.impl(exe, [xop], timeout=15, max_restarts=0)
    if not xa or xa[0].startswith("<timeout") or xst.startswith("timeout"):
        kn = [k for k in common.load_known("C09") if k.get("status") == "known" and k.get("class") == "exrule-all"]
        ctx.cov["exrule_all_probe"] = "no answer within 15 s"
        if kn:
            ctx.known(kn[0]["what"])
        else:
            fails.append((xop, "RRULE:FREQ=SECONDLY with EXRULE:FREQ=SECONDLY (every occurrence excluded): the first next() does not come back within 15 s"))
    elif xa[0].startswith("<"):
        fails.append((xop, "RRULE:FREQ=SECONDLY with EXRULE:FREQ=SECONDLY: %s" % xa[0][:200]))
    else:
        ctx.cov["exrule_all_probe"] = xa[0][:80]
    # filler calls through the model (fuel never ends a loop: theorems; here: same answers)
    sub = [wf[i] for i in sorted(rng.sample(range(len(wf)), min(len(wf), 150)))]
    fops, fimpl, fmodel = p_rrfill.chains(ctx, exe, sub, rng, nfills=3)
    corr, unm = p_rrfill.compare(fops, fimpl, fmodel)
    ctx.cov.update({
        "evaluations": len(texts) + len(wf) + len(allops) + len(cals) + len(fops),
        "distinct_nontrivial": len(set(texts)) + len(set(allops)) + len(set(cals)),
        "traces_validated_against_impl": len(fops) - len(corr) - unm,
        "rule": "hostile RRULE texts: every frequency; INTERVAL 0, -1, 2^31-1, 2^32-1, 2^32, seconds-per-day; COUNT 0, negative, huge; odd UNTILs; "
                "full BYMONTH/BYMONTHDAY/BYYEARDAY/BYWEEKNO/BYDAY lists with out-of-range ordinals and zeros; BYHOUR 0..24, BYMINUTE 0..60, "
                "BYSECOND 0..61 in full; BYSETPOS/BYEASTER/SHIFT/SCALE extremes; byte damage; DTSTART at the edges of the range and "
                "invalid dates; each accepted rule popped 200 times under ASan/UBSan within %.0f s; well-formed rules made incongruent "
                "(INTERVAL vs BYxxx) judged empty by the reference must end at once; calendars with several RRULE/EXRULE/RDATE/EXDATE "
                "lines through the whole parser; non-trivial = all" % BUDGET,
        "samples": [texts[i][:120] for i in sorted(rng.sample(range(len(texts)), 4))],
        "rule_texts": len(texts),
        "accepted_by_parser": len(accepted),
        "streams_run": len(allops),
        "empty_sets_confirmed_ended": empties,
        "calendars": len(cals),
        "wall_s_streams": round(wall, 1),
        "slowest_batches": [(round(e, 1), o[:100]) for e, o in sorted(slow, reverse=True)[:3]],
        "harness_batches": dict(status),
        "ops_not_modelled": unm,
        "impl_vs_spec_failures": len(fails),
        "impl_vs_model_differences": len(corr),
        "exhaustive": False,
    })
    ctx.assumptions += ["`bounded amount of work' is judged as: 200 occurrences of any accepted rule within %.0f s in the sanitizer build" % BUDGET,
                        "memory safety as far as ASan/UBSan (-fno-sanitize=shift-base) observe it on the inputs run"]
    if fails:
        op, why = fails[0]
        ctx.violation("property", why, {"op": op, "failures_total": len(fails), "more": [w[:300] for _, w in fails[1:6]]})
    elif corr:
        i, op, a, b = corr[0]
        ctx.violation("correspondence", "filler and model differ in %d calls; first: %s -> impl %s, model %s" % (len(corr), op[:200], a[:160], b[:160]),
                      {"correspondence": "Echse.Model.Rr* vs evrrul.c rrul_fill_*", "op": op, "impl": a, "model": b}, found_input=False)


def replay(ctx, rep):
    exe = p_strm.build(ctx)
    op = rep["data"].get("op")
    t = time.time()
    out, st, err = ctx.impl(exe, [op], timeout=BUDGET * 4)
    print("status %s after %.1f s: %s" % (st, time.time() - t, (out[0] if out else err[-400:])[:400]))
    return 0 if st == "ok" and out and not out[0].startswith("<") else 1
