/-
  Assembly of C16 / C09, part 7: `fill_contract`, `fill_total`, `fill_kind` -- the seven per-filler theorems behind
  the dispatch `fill` (Echse.Model.RrFill).
-/
import Echse.Lemmas.RrAsm6
namespace Echse.Lemmas.RrAsm
open Echse.Rrule Echse.Instant Echse.Spec.RrOk
open Echse.Lemmas.RrCandOk Echse.Lemmas.RrYlyOk Echse.Lemmas.RrMlyOk

theorem fillOk_nil' (r : Rule) (p : Inst) (n : Nat) : FillOk r p n [] :=
  ⟨Nat.zero_le _, fun h => h, fun _ h => (nomatch h), fun _ h => (nomatch h), fun _ h => (nomatch h), List.Pairwise.nil⟩

theorem fillYly_ok (r : Rule) (p : Inst) (n : Nat) (l : List Inst) (hr : WfRule r) (hp : WfInst p)
    (hs : ShiftOk r) (h : fillYly r p n = some l) : FillOk r p n l :=
  fillYly_ok_at r p n l hr hp (hs.yly p hp) h

theorem fillMly_ok (r : Rule) (p : Inst) (n : Nat) (l : List Inst) (hr : WfRule r) (hp : WfInst p)
    (hs : ShiftOk r) (h : fillMly r p n = some l) : FillOk r p n l :=
  { len_nti := (fillMly_len r p n l hr h).1
    len_count := (fillMly_len r p n l hr h).2
    wf := fillMly_wf_at r p n l hr hp (hs.mly p hr hp) h
    ge_proto := (fillMly_bounds r p n l h).1
    le_until := (fillMly_bounds r p n l h).2
    ascending := fillMly_asc r p n l hr hp h }

/-- C16 / C09 for one filler call, whatever the frequency: at most `n` and at most COUNT sane instants, none before
the seed, none after UNTIL, strictly ascending -/
theorem fill_contract (r : Rule) (p : Inst) (n : Nat) (l : List Inst) (hr : WfRule r) (hp : WfInst p)
    (hs : ShiftOk r) (hn : n ≤ 64) (h : fill r p n = some l) : FillOk r p n l := by
  unfold fill at h
  split at h
  · exact fillYly_ok r p n l hr hp hs h
  · exact fillMly_ok r p n l hr hp hs h
  · exact Echse.Lemmas.RrWlyOk.fillWly_ok r p n l hr hp hn h
  · exact Echse.Lemmas.RrDlyOk.fillDly_ok r p n l hr hp hn h
  · exact Echse.Lemmas.RrHlyOk.fillHly_ok r p n l hr hp hn h
  · exact Echse.Lemmas.RrMnlyOk.fillMnly_ok r p n l hr hp hn h
  · exact Echse.Lemmas.RrSlyOk.fillSly_ok r p n l hr hp hn h
  · cases h; exact fillOk_nil' r p n

/-- the weekly, daily and sub-daily fillers need no proviso -/
theorem fill_contract_weekly_down (r : Rule) (p : Inst) (n : Nat) (l : List Inst) (hr : WfRule r) (hp : WfInst p)
    (hf : 3 ≤ r.freq) (hn : n ≤ 64) (h : fill r p n = some l) : FillOk r p n l := by
  unfold fill at h
  split at h
  · omega
  · omega
  · exact Echse.Lemmas.RrWlyOk.fillWly_ok r p n l hr hp hn h
  · exact Echse.Lemmas.RrDlyOk.fillDly_ok r p n l hr hp hn h
  · exact Echse.Lemmas.RrHlyOk.fillHly_ok r p n l hr hp hn h
  · exact Echse.Lemmas.RrMnlyOk.fillMnly_ok r p n l hr hp hn h
  · exact Echse.Lemmas.RrSlyOk.fillSly_ok r p n l hr hp hn h
  · cases h; exact fillOk_nil' r p n

theorem fill_contract_subdaily (r : Rule) (p : Inst) (n : Nat) (l : List Inst) (hr : WfRule r) (hp : WfInst p)
    (hf : 5 ≤ r.freq) (hn : n ≤ 64) (h : fill r p n = some l) : FillOk r p n l :=
  fill_contract_weekly_down r p n l hr hp (by omega) hn h

/-- C09: every filler call returns -/
theorem fill_total (r : Rule) (p : Inst) (n : Nat) (hr : WfRule r) (hp : WfInst p) (hn : n ≤ 64) :
    (fill r p n).isSome := by
  unfold fill
  split
  · exact fillYly_total r p n hr hp hn
  · exact fillMly_total r p n hr hp hn
  · exact Echse.Lemmas.RrWlyOk.fillWly_total r p n hr hp hn
  · exact Echse.Lemmas.RrDlyOk.fillDly_total r p n hr hp hn
  · exact Echse.Lemmas.RrHlyOk.fillHly_total r p n hr hp hn
  · exact Echse.Lemmas.RrMnlyOk.fillMnly_total r p n hr hp hn
  · exact Echse.Lemmas.RrSlyOk.fillSly_total r p n hr hp hn
  · rfl

/-- what the yearly, monthly, weekly and daily filler write has the kind of the seed: all-day exactly if the seed is -/
theorem fill_same_kind (r : Rule) (p : Inst) (n : Nat) (l : List Inst) (hr : WfRule r) (hp : WfInst p)
    (hf : r.freq ≤ 4) (h : fill r p n = some l) : ∀ x ∈ l, (x.H = allDay ↔ p.H = allDay) := by
  intro x hx
  have hh : HFrom r p x := by
    unfold fill at h
    split at h
    · exact fillYly_hfrom r p n l h x hx
    · exact fillMly_hfrom r p n l h x hx
    · exact fillWly_hfrom r p n l h x hx
    · exact fillDly_hfrom r p n l h x hx
    · omega
    · omega
    · omega
    · cases h; cases hx
  exact ⟨hh.of_allDay hr hp, hh.allDay_of⟩

/-- … so `KindOk` (no longer a proviso of anything) goes on to the next refill's seed (sub-daily fillers: RrAsm12
`fill_kind_all`) -/
theorem fill_kind (r : Rule) (p : Inst) (n : Nat) (l : List Inst) (hr : WfRule r) (hp : WfInst p) (hk : KindOk r p)
    (hf : r.freq ≤ 4) (h : fill r p n = some l) : ∀ x ∈ l, KindOk r x := by
  intro x hx
  unfold fill at h
  split at h
  · exact (fillYly_hfrom r p n l h x hx).kindOk hr hp hk
  · exact (fillMly_hfrom r p n l h x hx).kindOk hr hp hk
  · exact (fillWly_hfrom r p n l h x hx).kindOk hr hp hk
  · exact (fillDly_hfrom r p n l h x hx).kindOk hr hp hk
  · omega
  · omega
  · omega
  · cases h; cases hx

end Echse.Lemmas.RrAsm
