/-
  C10 lemmas, part 16: draining one pushed buffer is running the automaton over its bytes.
-/
import Echse.Lemmas.Ical15
namespace Echse.Ical

theorem flatNext_mu (p : Parser) (acc : List Instr) (x : Parser × List Instr)
    (h : flatNext p acc = some x) : mu x.1 < mu p := by
  unfold flatNext book at h
  cases hr : (round p).2 with
  | none =>
    rw [hr] at h; cases h
    exact round_mu p (by rw [hr]; simp)
  | some r =>
    cases r with
    | need => rw [hr] at h; cases h
    | eop =>
      rw [hr] at h; cases h
      exact round_mu p (by rw [hr]; simp)
    | ve ls =>
      rw [hr] at h
      have := round_mu p (by rw [hr]; simp)
      dsimp only at h
      split at h <;> (cases h; exact this)

/-- the flat loop over one buffer -/
theorem flat_spec : ∀ (f : Nat) (p : Parser) (A : Abs), mu p < f → Pre p A → rest p ≠ [] →
    Post (flat f p A.ins).1 (runA A (rest p)) ∧ (flat f p A.ins).2 = (runA A (rest p)).ins ∧
      NoLine (rest (flat f p A.ins).1)
  | 0, p, A, hf, _, _ => by omega
  | f+1, p, A, hf, h, hne => by
    rw [flat_next]
    cases round_spec p A h hne with
    | inl hl =>
      rw [hl.1]
      exact ⟨hl.2.1, hl.2.2.1.symm, hl.2.2.2⟩
    | inr hr =>
      obtain ⟨q, acc', A', hn, hpre, hne', hacc, hrun⟩ := hr
      rw [hn]
      have hmu := flatNext_mu p A.ins (q, acc') hn
      dsimp only at hmu ⊢
      rw [hacc, hrun]
      exact flat_spec f q A' (by omega) hpre hne'

/-- `drain` after a push -/
theorem drain_spec (p : Parser) (A : Abs) (h : Pre p A) (hne : rest p ≠ []) :
    Post (drain (p.buf.length + 2) p A.ins).1 (runA A (rest p)) ∧
      (drain (p.buf.length + 2) p A.ins).2 = (runA A (rest p)).ins ∧
      NoLine (rest (drain (p.buf.length + 2) p A.ins).1) := by
  rw [drain_flat_std]
  exact flat_spec _ p A (by omega) h hne

end Echse.Ical
