/-
  Daemon model: checkpoint, crash, reload (`chkpnt`, `chkpntFault`, `reload`).  `fileOf fs u` is the queue
  file of user `u`; `writeAll s us fs` rewrites the files of the users `us` in order.  `FilesOK` is the
  well-formedness of a spool a new daemon can restore completely.  Used by C06.
-/
import Echse.Lemmas.Daemon5
namespace Echse.Daemon

/-! ### queue files -/

/-- the queue file of user `u` (`none`: there is none) -/
def fileOf (fs : List (Nat × List DTask)) (u : Nat) : Option (List DTask) := (fs.find? (·.1 == u)).map (·.2)

theorem fileOf_nil (u : Nat) : fileOf [] u = none := rfl

theorem fileOf_cons (f : Nat × List DTask) (fs : List (Nat × List DTask)) (u : Nat) :
    fileOf (f :: fs) u = if f.1 = u then some f.2 else fileOf fs u := by
  unfold fileOf
  rw [List.find?_cons]
  by_cases h : f.1 = u
  · have : (f.1 == u) = true := by simpa using h
    simp [h]
  · have : (f.1 == u) = false := by simpa using h
    simp [this, h]

theorem fileOf_eq_none_iff {fs : List (Nat × List DTask)} {u : Nat} :
    fileOf fs u = none ↔ ∀ f ∈ fs, f.1 ≠ u := by
  unfold fileOf
  rw [Option.map_eq_none_iff, List.find?_eq_none]
  simp

theorem fileOf_mem {fs : List (Nat × List DTask)} {u : Nat} {c : List DTask} (h : fileOf fs u = some c) :
    (u, c) ∈ fs := by
  induction fs with
  | nil => cases h
  | cons f r ih =>
    rw [fileOf_cons] at h
    by_cases hf : f.1 = u
    · rw [if_pos hf] at h
      cases h
      rw [← hf]
      exact List.mem_cons_self
    · rw [if_neg hf] at h
      exact List.mem_cons_of_mem _ (ih h)

theorem fileOf_map_replace (fs : List (Nat × List DTask)) (u v : Nat) (c : List DTask) :
    fileOf (fs.map fun f => if f.1 == u then (u, c) else f) v =
      if v = u then (if fs.any (·.1 == u) then some c else none) else fileOf fs v := by
  induction fs with
  | nil => by_cases h : v = u <;> simp [fileOf_nil, h]
  | cons f r ih =>
    rw [List.map_cons, fileOf_cons, fileOf_cons, ih, List.any_cons]
    by_cases hfu : f.1 = u
    · have hb : (f.1 == u) = true := by simpa using hfu
      simp only [hb, if_true, Bool.true_or]
      by_cases hvu : v = u
      · simp [hvu]
      · have : ¬ u = v := fun e => hvu e.symm
        have h2 : ¬ f.1 = v := fun e => hvu (e.symm.trans hfu)
        simp [hvu, this, h2]
    · have hb : (f.1 == u) = false := by simpa using hfu
      simp only [hb, Bool.false_eq_true, if_false, Bool.false_or]
      by_cases hvu : v = u
      · subst hvu
        simp [hfu]
      · simp [hvu]

theorem fileOf_append_single (fs : List (Nat × List DTask)) (u v : Nat) (c : List DTask) :
    fileOf (fs ++ [(u, c)]) v = match fileOf fs v with
      | some x => some x
      | none => if u = v then some c else none := by
  induction fs with
  | nil => simp [fileOf_cons, fileOf_nil]
  | cons f r ih =>
    rw [List.cons_append, fileOf_cons, fileOf_cons, ih]
    by_cases h : f.1 = v <;> simp [h]

/-- `setFile` replaces (or creates) the file of `u` and nothing else -/
theorem fileOf_setFile (fs : List (Nat × List DTask)) (u v : Nat) (c : List DTask) :
    fileOf (setFile fs u c) v = if v = u then some c else fileOf fs v := by
  unfold setFile
  by_cases ha : fs.any (·.1 == u) = true
  · rw [if_pos ha, fileOf_map_replace, ha]
    simp
  · rw [if_neg ha, fileOf_append_single]
    have hn : fileOf fs u = none := by
      rw [fileOf_eq_none_iff]
      intro f hf hfu
      apply ha
      rw [List.any_eq_true]
      exact ⟨f, hf, by simpa using hfu⟩
    by_cases hvu : v = u
    · subst hvu
      simp [hn]
    · have : ¬ u = v := fun e => hvu e.symm
      cases fileOf fs v <;> simp [hvu, this]

/-- the users that have a file, in spool order -/
def keys (fs : List (Nat × List DTask)) : List Nat := fs.map (·.1)

theorem keys_setFile (fs : List (Nat × List DTask)) (u : Nat) (c : List DTask) :
    keys (setFile fs u c) = if u ∈ keys fs then keys fs else keys fs ++ [u] := by
  unfold setFile keys
  by_cases ha : fs.any (·.1 == u) = true
  · have hm : u ∈ fs.map (·.1) := by
      rw [List.any_eq_true] at ha
      obtain ⟨f, hf, hfu⟩ := ha
      rw [List.mem_map]
      exact ⟨f, hf, by simpa using hfu⟩
    rw [if_pos ha, if_pos hm, List.map_map]
    apply List.map_congr_left
    intro f _
    simp only [Function.comp]
    by_cases hfu : f.1 = u
    · simp [hfu]
    · have : (f.1 == u) = false := by simpa using hfu
      simp [this]
  · have hm : ¬ u ∈ fs.map (·.1) := by
      intro hm
      apply ha
      rw [List.mem_map] at hm
      obtain ⟨f, hf, hfu⟩ := hm
      rw [List.any_eq_true]
      exact ⟨f, hf, by simpa using hfu⟩
    rw [if_neg ha, if_neg hm]
    simp

theorem keys_nodup_setFile {fs : List (Nat × List DTask)} (h : (keys fs).Nodup) (u : Nat) (c : List DTask) :
    (keys (setFile fs u c)).Nodup := by
  rw [keys_setFile]
  split
  · exact h
  · rename_i hm
    rw [List.nodup_append]
    refine ⟨h, by simp, ?_⟩
    intro a ha b hb
    rw [List.mem_singleton] at hb
    subst hb
    intro e
    subst e
    exact hm ha

/-! ### `chkpnt` -/

/-- the files of the users `us` rewritten in order -/
def writeAll (s : St) (us : List Nat) (fs : List (Nat × List DTask)) : List (Nat × List DTask) :=
  us.foldl (fun fs v => setFile fs v (tasksOf s v)) fs

theorem writeAll_nil (s : St) (fs : List (Nat × List DTask)) : writeAll s [] fs = fs := rfl

theorem writeAll_cons (s : St) (u : Nat) (us : List Nat) (fs : List (Nat × List DTask)) :
    writeAll s (u :: us) fs = writeAll s us (setFile fs u (tasksOf s u)) := rfl

theorem fileOf_writeAll (s : St) (v : Nat) : ∀ (us : List Nat) (fs : List (Nat × List DTask)),
    fileOf (writeAll s us fs) v = if v ∈ us then some (tasksOf s v) else fileOf fs v := by
  intro us
  induction us with
  | nil => intro fs; simp [writeAll_nil]
  | cons u r ih =>
    intro fs
    rw [writeAll_cons, ih, fileOf_setFile]
    by_cases hvr : v ∈ r
    · simp [hvr]
    · by_cases hvu : v = u
      · subst hvu; simp
      · simp [hvr, hvu]

theorem keys_nodup_writeAll (s : St) : ∀ (us : List Nat) (fs : List (Nat × List DTask)), (keys fs).Nodup →
    (keys (writeAll s us fs)).Nodup := by
  intro us
  induction us with
  | nil => intro fs h; exact h
  | cons u r ih => intro fs h; rw [writeAll_cons]; exact ih _ (keys_nodup_setFile h u _)

/-- a completed checkpoint rewrites every user of the list -/
theorem go_none (s : St) : ∀ (us : List Nat) (fs : List (Nat × List DTask)) (seen : List Nat),
    chkpnt.go s none us fs seen = writeAll s us fs := by
  intro us
  induction us with
  | nil => intro fs seen; rfl
  | cons u r ih =>
    intro fs seen
    rw [chkpnt.go, writeAll_cons]
    exact ih _ _

/-- an interrupted checkpoint: the users before the first occurrence of `c.u` are rewritten, `c.u` itself if the
cut is after the rename, nothing else; a cut at a user that does not come up is no cut -/
theorem go_some (s : St) (c : Cut) : ∀ (us : List Nat) (fs : List (Nat × List DTask)) (seen : List Nat),
    c.u ∉ seen →
    chkpnt.go s (some c) us fs seen =
      if c.u ∈ us then
        (if c.afterRename then setFile (writeAll s (us.takeWhile (· != c.u)) fs) c.u (tasksOf s c.u)
         else writeAll s (us.takeWhile (· != c.u)) fs)
      else writeAll s us fs := by
  intro us
  induction us with
  | nil => intro fs seen _; rfl
  | cons u r ih =>
    intro fs seen hs
    rw [chkpnt.go]
    by_cases hcu : c.u = u
    · have hb : (c.u == u) = true := by simpa using hcu
      have hc : seen.contains u = false := by
        rw [← hcu]
        simpa using hs
      have hm : c.u ∈ u :: r := by rw [hcu]; exact List.mem_cons_self
      have htw : (u :: r).takeWhile (· != c.u) = [] := by
        rw [List.takeWhile_cons]
        simp [hcu]
      simp only [hb, hc, Bool.not_false, Bool.and_self, if_true]
      rw [if_pos hm, htw, writeAll_nil, ← hcu]
    · have hb : (c.u == u) = false := by simpa using hcu
      have hne : ¬ u = c.u := fun e => hcu e.symm
      have hs' : c.u ∉ u :: seen := by
        intro hm
        rcases List.mem_cons.mp hm with e | e
        · exact hcu e
        · exact hs e
      have htw : (u :: r).takeWhile (· != c.u) = u :: r.takeWhile (· != c.u) := by
        rw [List.takeWhile_cons]
        simp [hne]
      simp only [hb, Bool.false_and, Bool.false_eq_true, if_false]
      rw [ih _ _ hs', htw]
      simp only [writeAll_cons, List.mem_cons, hcu, false_or]

/-- the files of the users satisfying `p` -/
theorem fileOf_filter (p : Nat → Bool) (fs : List (Nat × List DTask)) (u : Nat) :
    fileOf (fs.filter (fun f => p f.1)) u = if p u = true then fileOf fs u else none := by
  induction fs with
  | nil => simp [fileOf_nil]
  | cons f r ih =>
    rw [List.filter_cons]
    by_cases hp : p f.1 = true
    · rw [if_pos hp, fileOf_cons, fileOf_cons, ih]
      by_cases hfu : f.1 = u
      · rw [if_pos hfu, if_pos hfu, if_pos (hfu ▸ hp)]
      · rw [if_neg hfu, if_neg hfu]
    · rw [if_neg hp, ih, fileOf_cons]
      by_cases hfu : f.1 = u
      · rw [if_neg (hfu ▸ hp), if_neg (hfu ▸ hp)]
      · rw [if_neg hfu]

theorem keys_filter (p : Nat → Bool) (fs : List (Nat × List DTask)) :
    keys (fs.filter (fun f => p f.1)) = (keys fs).filter p := by
  unfold keys
  rw [List.filter_map]
  rfl

/-- a completed checkpoint: every user of the list is rewritten; the complete dump (16 entries) then removes
the files of everybody else -/
theorem chkpnt_files_none (s : St) : (chkpnt s none).files =
    if 16 ≤ s.dirty.length then
      (writeAll s (chkpntUsers s) s.files).filter (fun f => (chkpntUsers s).contains f.1)
    else writeAll s (chkpntUsers s) s.files := by
  unfold chkpnt
  simp only [Option.isNone_none, and_true, ge_iff_le, go_none]

theorem chkpnt_files_some (s : St) (c : Cut) : (chkpnt s (some c)).files =
    if c.u ∈ chkpntUsers s then
      (if c.afterRename then
        setFile (writeAll s ((chkpntUsers s).takeWhile (· != c.u)) s.files) c.u (tasksOf s c.u)
       else writeAll s ((chkpntUsers s).takeWhile (· != c.u)) s.files)
    else writeAll s (chkpntUsers s) s.files := by
  unfold chkpnt
  simp only [Option.isNone_some, Bool.false_eq_true, and_false, if_false]
  exact go_some s c _ _ [] (by simp)

/-- a completed checkpoint, file by file -/
theorem fileOf_chkpnt_none (s : St) (u : Nat) : fileOf (chkpnt s none).files u =
    if u ∈ chkpntUsers s then some (tasksOf s u)
    else if 16 ≤ s.dirty.length then none else fileOf s.files u := by
  rw [chkpnt_files_none]
  by_cases hl : 16 ≤ s.dirty.length
  · rw [if_pos hl, if_pos hl, fileOf_filter (fun v => (chkpntUsers s).contains v), fileOf_writeAll]
    by_cases hm : u ∈ chkpntUsers s
    · rw [if_pos (by simpa using hm), if_pos hm, if_pos hm]
    · rw [if_neg (by simpa using hm), if_neg hm]
  · rw [if_neg hl, if_neg hl, fileOf_writeAll]

theorem keys_nodup_chkpnt {s : St} (hk : (keys s.files).Nodup) : (keys (chkpnt s none).files).Nodup := by
  have hk' := keys_nodup_writeAll s (chkpntUsers s) s.files hk
  rw [chkpnt_files_none]
  split
  · rw [keys_filter (fun v => (chkpntUsers s).contains v)]
    exact hk'.filter _
  · exact hk'

theorem mem_takeWhile_ne {l : List Nat} {u v : Nat} (h : v ∈ l.takeWhile (· != u)) : v ∈ l ∧ v ≠ u := by
  induction l with
  | nil => cases h
  | cons a r ih =>
    rw [List.takeWhile_cons] at h
    by_cases ha : a = u
    · simp [ha] at h
    · have hb : (a != u) = true := by simpa using ha
      rw [hb] at h
      rcases List.mem_cons.mp h with e | e
      · exact ⟨e ▸ List.mem_cons_self, e ▸ ha⟩
      · exact ⟨List.mem_cons_of_mem _ (ih e).1, (ih e).2⟩

/-- `l.takeWhile (· != u)` is the part of `l` before the first occurrence of `u` -/
theorem split_first {l : List Nat} {u : Nat} (h : u ∈ l) :
    ∃ rest, l = l.takeWhile (· != u) ++ u :: rest ∧ u ∉ l.takeWhile (· != u) := by
  refine ⟨(l.dropWhile (· != u)).tail, ?_, fun c => (mem_takeWhile_ne c).2 rfl⟩
  induction l with
  | nil => cases h
  | cons a r ih =>
    rw [List.takeWhile_cons, List.dropWhile_cons]
    by_cases ha : a = u
    · simp [ha]
    · have hb : (a != u) = true := by simpa using ha
      have hr : u ∈ r := by
        rcases List.mem_cons.mp h with e | e
        · exact absurd e.symm ha
        · exact e
      simp only [hb, if_true, List.cons_append]
      rw [← ih hr]

theorem chkpntFault_files (s : St) (u : Nat) :
    (chkpntFault s u).files = writeAll s ((chkpntUsers s).erase u) s.files := rfl

theorem mem_erase_self_iff {l : List Nat} {u : Nat} : u ∈ l.erase u ↔ 2 ≤ l.count u := by
  rw [← List.count_pos_iff, List.count_erase_self]
  omega

/-! ### `reload` -/

/-- what a queue file says of a task -/
structure Snap where
  uid : String
  owner : Nat
  maxSimul : Nat
  dur : Nat
  occ : List Nat
deriving DecidableEq, Repr

def snapOf (t : DTask) : Snap :=
  { uid := t.uid, owner := t.owner, maxSimul := t.maxSimul, dur := t.dur, occ := t.occ }

/-- a snapshot read back at clock value `now`: the occurrences earlier than `now` are dropped -/
def snapAt (now : Nat) (t : DTask) : Snap :=
  { uid := t.uid, owner := t.owner, maxSimul := t.maxSimul, dur := t.dur,
    occ := t.occ.filter (fun o => decide (now ≤ o)) }

/-- the users every daemon knows (the model's fixed `users` list) -/
abbrev KnownUser (u : Nat) : Prop := Known ({ me := 0 } : St) u

/-- a spool a new daemon restores completely: ascending streams, one task per uid over all files, every task
in the file of its owner, owners known, every task with a usable UID (one without is turned down) -/
structure FilesOK (files : List (Nat × List DTask)) : Prop where
  sorted : ∀ f ∈ files, ∀ t ∈ f.2, t.occ.Pairwise (· ≤ ·)
  uids : ((files.flatMap (·.2)).map (·.uid)).Nodup
  owner : ∀ f ∈ files, ∀ t ∈ f.2, t.owner = f.1
  known : ∀ f ∈ files, ∀ t ∈ f.2, KnownUser t.owner
  uidNe : ∀ f ∈ files, ∀ t ∈ f.2, t.uid ≠ ""

theorem loaded_dur (s : St) (t0 : DTask) : (loaded s t0).dur = t0.dur := by
  unfold loaded
  cases hdw : t0.occ.dropWhile (· < s.now) with
  | nil => rw [resched_nil hdw]; split <;> rfl
  | cons e r => rw [resched_cons hdw]

theorem snapOf_loaded_fresh (s : St) (sid : Nat) (uid : String) (e ms dur : Nat) (occ : List Nat) :
    snapOf (loaded s (fresh sid uid e ms dur occ)) =
      { uid := uid, owner := e, maxSimul := ms, dur := dur, occ := occ.dropWhile (· < s.now) } := by
  have hk := loaded_keeps s (fresh sid uid e ms dur occ)
  unfold snapOf
  rw [hk.2.1, hk.2.2.2.2.1, hk.2.2.2.2.2.1, loaded_dur, loaded_occ]
  rfl

/-- the unknown peer (the spool) may act for a known owner in the root daemon, and for the daemon's own
user in a user daemon -/
theorem effOwner_spool {s : St} {o : Nat} (hk : Known s o) (hme : s.me = 0 ∨ o = s.me) :
    effOwner s (some o) notAUid = some o := by
  rw [effOwner_core (fun c => c.1 rfl)]
  have h1 : ownerC s (some o) = o := complUid_known hk
  rw [h1, complUid_notAUid]
  have ho : o ≠ notAUid := hk.1
  unfold effCore
  rw [if_neg (fun c => ho c.2), if_neg (fun c => by rcases hme with h | h; exact c.2.1 h; exact c.2.2 h),
    if_neg (fun c => ho c.1), if_neg (fun c => c.1 rfl), if_neg ho]

/-- one task of a queue file is injected -/
def loadStep (s : St) (t : DTask) : St := (inject s t.uid (some t.owner) t.maxSimul t.dur t.occ true notAUid).1

theorem reload_eq (files : List (Nat × List DTask)) (me now : Nat) :
    reload files me now = (files.flatMap (·.2)).foldl loadStep { me := me, now := now, files := files } := by
  unfold reload
  rw [List.foldl_flatMap]
  rfl

theorem loadStep_new {s : St} {t : DTask} (hk : Known s t.owner) (hme : s.me = 0 ∨ t.owner = s.me)
    (hf : s.find t.uid = none) (hu : t.uid ≠ "") :
    (loadStep s t).tasks = s.tasks ++ [loaded s (fresh s.nextSid t.uid t.owner t.maxSimul t.dur t.occ)] ∧
    (loadStep s t).me = s.me ∧ (loadStep s t).users = s.users ∧ (loadStep s t).now = s.now := by
  unfold loadStep
  rw [inject_eq]
  have hue : (t.uid == "") = false := by simpa using hu
  simp only [injectSpec, effOwner_spool hk hme, injectAs, hf, hue, Bool.or_false, Bool.not_true, Bool.false_eq_true,
    if_false]
  simp

/-- loading tasks with new, pairwise distinct uids appends one record per task -/
theorem load_all : ∀ (L : List DTask) (s : St),
    (∀ t ∈ L, Known s t.owner ∧ (s.me = 0 ∨ t.owner = s.me) ∧ t.uid ≠ "") →
    (L.map (·.uid)).Nodup → (∀ t ∈ L, ∀ x ∈ s.tasks, x.uid ≠ t.uid) →
    (∀ x ∈ s.tasks, x.inTable = true) →
    (∀ x ∈ (L.foldl loadStep s).tasks, x.inTable = true) ∧
    (L.foldl loadStep s).tasks.map snapOf = s.tasks.map snapOf ++ L.map (fun t =>
      ({ uid := t.uid, owner := t.owner, maxSimul := t.maxSimul, dur := t.dur,
         occ := t.occ.dropWhile (· < s.now) } : Snap)) := by
  intro L
  induction L with
  | nil => intro s _ _ _ hi; exact ⟨hi, by simp⟩
  | cons t r ih =>
    intro s hk hn hu hi
    rw [List.map_cons, List.nodup_cons] at hn
    have hf : s.find t.uid = none := by
      rw [find_eq_none_iff]
      intro x hx _
      exact hu t List.mem_cons_self x hx
    obtain ⟨h1, h2, h3, h4⟩ := loadStep_new (hk t List.mem_cons_self).1 (hk t List.mem_cons_self).2.1 hf
      (hk t List.mem_cons_self).2.2
    have hlk := loaded_keeps s (fresh s.nextSid t.uid t.owner t.maxSimul t.dur t.occ)
    rw [List.foldl_cons]
    have := ih (loadStep s t)
      (fun x hx => by
        have := hk x (List.mem_cons_of_mem _ hx)
        unfold Known at this ⊢
        rw [h2, h3]
        exact this)
      hn.2
      (fun x hx y hy => by
        rw [h1, List.mem_append, List.mem_singleton] at hy
        rcases hy with hy | hy
        · exact hu x (List.mem_cons_of_mem _ hx) y hy
        · rw [hy, hlk.2.1]
          intro e
          apply hn.1
          rw [List.mem_map]
          exact ⟨x, hx, e.symm⟩)
      (fun y hy => by
        rw [h1, List.mem_append, List.mem_singleton] at hy
        rcases hy with hy | hy
        · exact hi y hy
        · rw [hy, hlk.2.2.1]; rfl)
    refine ⟨this.1, ?_⟩
    rw [this.2, h1, h4, List.map_append, List.map_singleton, snapOf_loaded_fresh, List.map_cons,
      List.append_assoc]
    rfl

/-- the table of a new daemon, as snapshots: one record per task of the spool, in spool order -/
theorem reload_tasks {files : List (Nat × List DTask)} (h : FilesOK files) (me now : Nat)
    (hme : me = 0 ∨ ∀ f ∈ files, ∀ t ∈ f.2, t.owner = me) :
    (∀ x ∈ (reload files me now).tasks, x.inTable = true) ∧
    (reload files me now).tasks.map snapOf = (files.flatMap (·.2)).map (snapAt now) := by
  rw [reload_eq]
  have := load_all (files.flatMap (·.2)) { me := me, now := now, files := files }
    (fun t ht => by
      rw [List.mem_flatMap] at ht
      obtain ⟨f, hf, htf⟩ := ht
      refine ⟨h.known f hf t htf, ?_, h.uidNe f hf t htf⟩
      rcases hme with e | e
      · exact Or.inl e
      · exact Or.inr (e f hf t htf))
    h.uids (fun _ _ x hx => by cases hx) (fun x hx => by cases hx)
  refine ⟨this.1, ?_⟩
  rw [this.2]
  simp only [List.map_nil, List.nil_append]
  apply List.map_congr_left
  intro t ht
  rw [List.mem_flatMap] at ht
  obtain ⟨f, hf, htf⟩ := ht
  unfold snapAt
  rw [dropWhile_eq_filter_of_sorted _ _ (h.sorted f hf t htf)]

theorem fileOf_of_mem {fs : List (Nat × List DTask)} (hk : (keys fs).Nodup) {f : Nat × List DTask} (hf : f ∈ fs) :
    fileOf fs f.1 = some f.2 := by
  induction fs with
  | nil => cases hf
  | cons g r ih =>
    unfold keys at hk ih
    rw [List.map_cons, List.nodup_cons] at hk
    rw [fileOf_cons]
    rcases List.mem_cons.mp hf with e | e
    · rw [e]; simp
    · have : ¬ g.1 = f.1 := by
        intro c
        apply hk.1
        rw [c, List.mem_map]
        exact ⟨f, e, rfl⟩
      rw [if_neg this]
      exact ih hk.2 e

/-- the tasks of user `u` in a spool whose tasks lie in their owners' files -/
theorem filter_owner_flatMap : ∀ (files : List (Nat × List DTask)), (keys files).Nodup →
    (∀ f ∈ files, ∀ t ∈ f.2, t.owner = f.1) → ∀ u,
    (files.flatMap (·.2)).filter (fun t => t.owner == u) = (fileOf files u).getD [] := by
  intro files
  induction files with
  | nil => intro _ _ u; rfl
  | cons f r ih =>
    intro hk ho u
    have hk' : f.1 ∉ keys r ∧ (keys r).Nodup := by
      unfold keys at hk ⊢
      rw [List.map_cons, List.nodup_cons] at hk
      exact hk
    have ih' := ih hk'.2 (fun g hg => ho g (List.mem_cons_of_mem _ hg)) u
    rw [List.flatMap_cons, List.filter_append, ih', fileOf_cons]
    by_cases hfu : f.1 = u
    · have h1 : f.2.filter (fun t => t.owner == u) = f.2 := by
        rw [List.filter_eq_self]
        intro t ht
        rw [ho f List.mem_cons_self t ht, hfu]
        simp
      have h2 : fileOf r u = none := by
        rw [fileOf_eq_none_iff]
        intro g hg c
        apply hk'.1
        rw [hfu, ← c]
        unfold keys
        rw [List.mem_map]
        exact ⟨g, hg, rfl⟩
      rw [if_pos hfu, h1, h2]
      simp
    · have h1 : f.2.filter (fun t => t.owner == u) = [] := by
        rw [List.filter_eq_nil_iff]
        intro t ht
        rw [ho f List.mem_cons_self t ht]
        simpa using hfu
      rw [if_neg hfu, h1]
      simp

theorem tasksOf_snap {s : St} (hi : ∀ x ∈ s.tasks, x.inTable = true) (u : Nat) :
    (tasksOf s u).map snapOf =
      ((s.tasks.map snapOf).filter (fun sn => sn.owner == u)).filter (fun sn => !sn.occ.isEmpty) := by
  unfold tasksOf
  rw [List.filter_filter, List.filter_map]
  congr 1
  apply List.filter_congr
  intro x hx
  simp only [Function.comp, snapOf, hi x hx, Bool.true_and]
  exact Bool.and_comm _ _

/-- the tasks a new daemon schedules for user `u` are those of `u`'s file (without the occurrences already
past and without the tasks that have none left) — and nothing else -/
theorem reload_user {files : List (Nat × List DTask)} (h : FilesOK files) (hk : (keys files).Nodup) (me now : Nat)
    (hme : me = 0 ∨ ∀ f ∈ files, ∀ t ∈ f.2, t.owner = me) (u : Nat) :
    (tasksOf (reload files me now) u).map snapOf =
      (((fileOf files u).getD []).map (snapAt now)).filter (fun sn => !sn.occ.isEmpty) := by
  obtain ⟨h1, h2⟩ := reload_tasks h me now hme
  rw [tasksOf_snap h1, h2, List.filter_map]
  have : (fun sn : Snap => sn.owner == u) ∘ snapAt now = fun t => t.owner == u := rfl
  rw [this, filter_owner_flatMap files hk h.owner]
end Echse.Daemon
