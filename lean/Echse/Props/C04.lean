/-
  C04 — exactly-once scheduling in the daemon model: an occurrence is run at most once, not before it is
  due, never if it was already past when the task was loaded; late occurrences collapse into one run;
  exhausted tasks leave the table.

  `iter s now ko` is one loop iteration at clock value `now` (`tick s now = iter s now none`); with
  `ko = some k` the `k`-th child is reaped in the same iteration while periodic callbacks are pending
  (`Op.tickExit`).  `Inv` is the invariant of reachable states (`C12.reachable_inv`, `Inv_run`).
  Helper lemmas: Echse/Lemmas/Daemon*.lean.  The last section (`jump`) is outside the assumption all the others make.
-/
import Echse.Lemmas.Daemon4
import Echse.Lemmas.DaemonJump
namespace C04
open Echse.Daemon

/-- reachable states are well-formed -/
theorem reachable_inv (m : Nat) (ops : List Op) (hm : Mono 0 ops) : Inv (run { me := m } ops).1 :=
  Inv_run ops { me := m } (Inv_init m) hm

/-! ### 1. not early, nothing from the past -/

/-- `not_early`: every spawn of an iteration runs the armed occurrence `c = t.cur` of an in-table task `t`;
`c` is the head of `t`'s remaining stream, it is past (`c < now`) and was not past at the previous
iteration (`s.now ≤ c`) -/
theorem not_early {s : St} {now : Nat} {ko : Option Nat} (h : Inv s) {sp : Spawn} (hsp : sp ∈ (iter s now ko).2) :
    ∃ t ∈ s.tasks, t.inTable = true ∧ t.uid = sp.uid ∧ t.resched = true ∧ t.occ.head? = some t.cur ∧
      s.now ≤ t.cur ∧ t.cur < now ∧ sp.asUid = t.owner := by
  obtain ⟨t, htm, hit, hr, hh, h1, h2, _, he⟩ := spawn_char h hsp
  exact ⟨t, htm, hit, by rw [he], hr, hh, h1, h2, by rw [he]⟩

theorem not_early_tick {s : St} {now : Nat} (h : Inv s) {sp : Spawn} (hsp : sp ∈ (tick s now).2) :
    ∃ t ∈ s.tasks, t.inTable = true ∧ t.uid = sp.uid ∧ t.resched = true ∧ t.occ.head? = some t.cur ∧
      s.now ≤ t.cur ∧ t.cur < now ∧ sp.asUid = t.owner := by
  rw [tick_eq_iter] at hsp; exact not_early h hsp

/-- `no_past`, loading: a successful `inject` at clock value `s.now` leaves a table entry whose stream is the
submitted one without the occurrences earlier than `s.now` -/
theorem no_past_load {s : St} (h : Inv s) (uid : String) (owner : Option Nat) (ms dur : Nat) (occ : List Nat)
    (peer : Nat) (hs : occ.Pairwise (· ≤ ·)) (hok : (inject s uid owner ms dur occ true peer).2 = true) :
    ∃ t', (inject s uid owner ms dur occ true peer).1.find uid = some t' ∧
      t'.occ = occ.dropWhile (· < s.now) ∧ t'.occ = occ.filter (fun o => decide (s.now ≤ o)) ∧
      ∀ o ∈ t'.occ, s.now ≤ o ∧ o ∈ occ := by
  rw [inject_eq] at hok ⊢
  unfold injectSpec at hok ⊢
  cases he : effOwner s owner peer with
  | none => rw [he] at hok; cases hok
  | some e =>
    rw [he] at hok
    simp only [] at hok ⊢
    have hu : uid ≠ "" := injectAs_ok_ne hok
    have hown : ∀ old, s.find uid = some old → old.owner = e := by
      intro old hf
      unfold injectAs at hok
      rw [hf] at hok
      have hue : (uid == "") = false := by simpa using hu
      simp only [hue, Bool.not_true, Bool.or_false, Bool.false_eq_true, if_false] at hok
      by_cases ho : old.owner = e
      · exact ho
      · rw [if_pos ho] at hok; cases hok
    obtain ⟨_, t', hf', _, _, _, hocc, _⟩ := injectAs_find h (ms := ms) (dur := dur) hs (effOwner_known he) hown hu
    refine ⟨t', hf', hocc, by rw [hocc]; exact dropWhile_eq_filter_of_sorted _ _ hs, ?_⟩
    intro o ho
    rw [hocc, dropWhile_eq_filter_of_sorted _ _ hs, List.mem_filter] at ho
    exact ⟨by simpa using ho.2, ho.1⟩

/-- `no_past`, invariant: in a reachable state no occurrence of an in-table task is earlier than the clock -/
theorem no_past {s : St} (h : Inv s) {t : DTask} (ht : t ∈ s.tasks) (hit : t.inTable = true) :
    ∀ o ∈ t.occ, s.now ≤ o := occ_ge_now (h.tinv' ht) hit

/-- `no_past`, histories: as long as no request intervenes, every spawn of a uid (tagged with the clock value
`n` of its iteration) runs an occurrence `c` of the stream its entry had at the start, with
`start clock ≤ c < n`; with `no_past_load`: an occurrence already past at load time is never run -/
theorem no_past_run (s : St) (h : Inv s) (ops : List Op) (hm : Mono s.now ops)
    (hnr : ∀ op ∈ ops, op.isReq = false) :
    ∀ p ∈ (run s ops).2.1, ∃ t, s.find p.2.uid = some t ∧ ∃ c ∈ t.occ, s.now ≤ c ∧ c < p.1 :=
  run_spawn_occ ops s h hm hnr

/-! ### 2. one run per iteration, late occurrences collapse -/

/-- `one_per_tick`, at most: an iteration makes at most one spawn per uid -/
theorem at_most_one {s : St} (now : Nat) (ko : Option Nat) (h : Inv s) (u : String) :
    ((iter s now ko).2.filter (·.uid == u)).length ≤ 1 := iter_spawns_uid_le now ko h u

/-- `one_per_tick`, exactly: an in-table task whose armed occurrence is past gets exactly one spawn (when
spawning does not fail) — also in the iteration in which its last child is reaped -/
theorem exactly_one {s : St} (now : Nat) (ko : Option Nat) (h : Inv s) {t : DTask} (ht : t ∈ s.tasks)
    (hit : t.inTable = true) (hr : t.resched = true) (hc : t.cur < now) (hf : s.spawnFail = false) :
    (iter s now ko).2.filter (·.uid == t.uid) =
      [{ uid := t.uid, nd := !mayRun { t with nsim := t.nsim - exitDec (exitSid s ko) t },
         durS := durSecs t.dur, asUid := t.owner }] := by
  rw [iter_spawns_uid now ko h ht hit, iterSpawns_eq (h.tinv' ht) hit, if_pos ⟨hr, hc, hf⟩]

/-- … and none if its armed occurrence is not past, or it has none -/
theorem none_if_not_due {s : St} (now : Nat) (ko : Option Nat) (h : Inv s) {t : DTask} (ht : t ∈ s.tasks)
    (hit : t.inTable = true) (hn : ¬ (t.resched = true ∧ t.cur < now)) :
    (iter s now ko).2.filter (·.uid == t.uid) = [] := by
  rw [iter_spawns_uid now ko h ht hit, iterSpawns_eq (h.tinv' ht) hit, if_neg]
  intro hh; exact hn ⟨hh.1, hh.2.1⟩

/-- `late_collapse`: the iteration drops from the stream of every in-table task exactly the occurrences
earlier than `now` (all of them go into the single run), none of the others -/
theorem late_collapse {s : St} {now : Nat} {ko : Option Nat} (h : Inv s) {t t' : DTask} (ht : t ∈ s.tasks)
    (hit : t.inTable = true) (ht' : t' ∈ (iter s now ko).1.tasks) (hs : t'.sid = t.sid) :
    t'.occ = t.occ.filter (fun o => decide (now ≤ o)) := by
  obtain ⟨x, hx, hix⟩ := (mem_iter_tasks h).mp ht'
  have hk := iterTask_keeps hix
  have : x = t := h.sidU.inj hx ht (by rw [← hk.1, hs])
  subst this
  exact iterTask_occ (h.tinv' hx) hit hix

/-! ### 3. count and order over histories -/

/-- `count`: over a history without requests, the number of spawns of a uid is at most the number of
occurrences of its table entry that came due (are earlier than the final clock value) -/
theorem count (s : St) (h : Inv s) (u : String) (ops : List Op) (hm : Mono s.now ops)
    (hnr : ∀ op ∈ ops, op.isReq = false) :
    ((run s ops).2.1.filter (·.2.uid == u)).length ≤
      match s.find u with
      | some t => (t.occ.filter (fun o => decide (o < (run s ops).1.now))).length
      | none => 0 :=
  run_count u ops s h hm hnr

/-- `order`: over any history the clock values of the successive spawns of one uid strictly increase -/
theorem order (m : Nat) (u : String) (ops : List Op) (hm : Mono 0 ops) :
    (((run { me := m } ops).2.1.filter (·.2.uid == u)).map (·.1)).Pairwise (· < ·) :=
  run_order u ops { me := m } (Inv_init m) hm

/-! ### 4. tasks without a future, retiring -/

/-- `never_run_without_future`: a task loaded with no occurrence at or after the clock (or none at all) is
in the table with an empty stream, and no history without requests ever produces a spawn for it -/
theorem never_run_without_future {s : St} (h : Inv s) (uid : String) (owner : Option Nat) (ms dur : Nat)
    (occ : List Nat) (peer : Nat) (hs : occ.Pairwise (· ≤ ·)) (hpast : ∀ o ∈ occ, o < s.now)
    (hok : (inject s uid owner ms dur occ true peer).2 = true) (ops : List Op)
    (hm : Mono s.now ops) (hnr : ∀ op ∈ ops, op.isReq = false) :
    (∃ t', (inject s uid owner ms dur occ true peer).1.find uid = some t' ∧ t'.occ = []) ∧
    (run (inject s uid owner ms dur occ true peer).1 ops).2.1.filter (·.2.uid == uid) = [] := by
  obtain ⟨t', hf', _, hocc, _⟩ := no_past_load h uid owner ms dur occ peer hs hok
  have hnil : t'.occ = [] := by
    rw [hocc, List.filter_eq_nil_iff]
    intro o ho
    have := hpast o ho
    simp; omega
  refine ⟨⟨t', hf', hnil⟩, ?_⟩
  have hinv' : Inv (inject s uid owner ms dur occ true peer).1 := Inv_inject h uid owner ms dur occ true peer hs
  have hnow : (inject s uid owner ms dur occ true peer).1.now = s.now :=
    (applyInstr_frame s peer (.sched uid owner ms dur occ true)).now
  have := run_count uid ops _ hinv' (by rw [hnow]; exact hm) hnr
  unfold dueBound at this
  rw [hf'] at this
  simp only [hnil, List.filter_nil, List.length_nil, Nat.le_zero, List.length_eq_zero_iff] at this
  exact this

/-- … and, having no live children, it has left the table after the next iteration with a later clock -/
theorem gone_after_next_tick {s : St} (h : Inv s) {t : DTask} (ht : t ∈ s.tasks) (hit : t.inTable = true)
    (ho : t.occ = []) (hn : t.nsim = 0) {now : Nat} (hnow : s.now < now) (ko : Option Nat) :
    (iter s now ko).1.find t.uid = none := retire_iter h ht hit ho hn hnow ko

/-- `retire`: in a reachable state an in-table task with an exhausted stream and no live child can only be
one that was loaded without a future and never ran, its `unsched` queued for the next iteration
(`gone_after_next_tick`); every other task left the table when its stream was exhausted and its last
child had exited -/
theorem retire {s : St} (h : Inv s) {t : DTask} (ht : t ∈ s.tasks) (ho : t.occ = []) (hn : t.nsim = 0) :
    t.resched = false ∧ t.cbUnsched = true ∧ t.active = true ∧ t.nrun = 0 ∧ ∃ a, t.due = some a ∧ a ≤ s.now :=
  retire_phase h ht ho hn

/-- `retire`, the moment: when the last live child of a task with an exhausted stream exits, the task
leaves the table -/
theorem retire_on_exit {s : St} (h : Inv s) {t : DTask} (ht : t ∈ s.tasks) (hit : t.inTable = true)
    (ho : t.occ = []) (hn : t.nsim = 1) {k : Nat} {c : Child} (hc : s.children[k]? = some c)
    (hl : c.live = true) (hcs : c.sid = t.sid) : (childExit s k).1.find t.uid = none :=
  retire_exit h ht hit ho hn hc hl hcs

/-! ### concrete histories -/

/-- three late occurrences collapse into one run; the fourth stays armed -/
example :
    ((run { me := 0 } [.req 1001 [.sched "j" none 63 0 [10, 20, 30, 40] true], .tick 35]).2.1.map
      fun p => (p.1, p.2.uid, p.2.nd)) = [(35, "j", false)] ∧
    ((run { me := 0 } [.req 1001 [.sched "j" none 63 0 [10, 20, 30, 40] true], .tick 35]).1.tasks.map
      fun t => (t.occ, t.cur)) = [([40], 40)] := by decide

/-- occurrences already past at load time are never run; a task without a future leaves at the next tick -/
example :
    (run { me := 0 } [.tick 25, .req 1001 [.sched "j" none 63 0 [10, 20, 30] true], .tick 26, .tick 35]).2.1.map
      (fun p => p.1) = [35] ∧
    (run { me := 0 } [.tick 25, .req 1001 [.sched "j" none 63 0 [10, 20] true], .tick 26]).2.1.length = 0 ∧
    (run { me := 0 } [.tick 25, .req 1001 [.sched "j" none 63 0 [10, 20] true], .tick 26]).1.tasks.length = 0 := by
  decide

/-! ### a step of the wall clock (finding D158: known, not repaired) -/

/-
  Scope of this file.  `not_early`, `exactly_one`, `late_collapse`, `count`, `order`, `retire` … speak about
  histories made of loads, loop iterations (`tick` / `tickExit`) and child exits (`Op`, `run`), i.e. they hold under
  the assumption that libev asks a watcher's reschedule callback only when the watcher is started and after it has
  fired (DESIGN.md Appendix B).  libev has a third occasion: when `time_update` sees the wall clock step away from the
  monotonic clock, `periodics_reschedule` asks every started periodic again, with the new time and with NO callback to
  follow.  The model has that as `reschedAll`, and `jump s now` is a loop iteration that begins with it.  `jump` is not
  an `Op`: it is outside the assumption, `Inv` does not survive it, and the theorems above say nothing about histories
  that contain it.  What is proved here instead is the defect as recorded (finding D158): `resched` drops the
  occurrences that came due across the step without running anything, so they get zero runs instead of the one late
  run of `exactly_one` / `late_collapse`; a one-shot task among them is left in the table with an exhausted stream, no
  live child and no watcher that will ever fire (the state `retire` excludes for reachable states).
-/

/-- the state of the witness: root's daemon, user 1001 has loaded at clock 0 a repeating task `r` (5, 100) and a
one-shot task `o` (5) -/
def stepSt : St :=
  (run { me := 0 } [.req 1001 [.sched "r" none 63 0 [5, 100] true, .sched "o" none 63 0 [5] true]]).1

/-- `clock_step_loses_runs`: both tasks come due at 5 and the loop gets to run at 10.
* Woken up late (`tick`), it runs each of them once; when `o`'s child has exited, `o` has left the table.
* After a step of the wall clock to 10 (`jump`) it runs nothing; `r` waits for 100, `o` stays in the table with an
  empty stream, no child and a watcher that never fires: three later iterations run `r` once and still have `o`. -/
theorem clock_step_loses_runs :
    (stepSt.tasks.map fun t => (t.uid, t.occ, t.cur)) = [("r", [5, 100], 5), ("o", [5], 5)] ∧
    -- the late wake-up
    ((tick stepSt 10).2.map fun sp => (sp.uid, sp.nd)) = [("r", false), ("o", false)] ∧
    ((childExit (tick stepSt 10).1 1).1.tasks.map fun t => (t.uid, t.occ, t.cur)) = [("r", [100], 100)] ∧
    -- the clock step
    (jump stepSt 10).2.length = 0 ∧
    ((jump stepSt 10).1.tasks.map fun t => (t.uid, t.occ, t.cur, t.nsim)) = [("r", [100], 100, 0), ("o", [], 0, 0)] ∧
    ((jump stepSt 10).1.tasks.map fun t => (t.resched, t.cbUnsched, t.due)) =
      [(true, false, some 100), (false, false, none)] ∧
    ((run (jump stepSt 10).1 [.tick 50, .tick 1000, .tick 100000]).2.1.map fun p => (p.1, p.2.uid)) = [(1000, "r")] ∧
    ((run (jump stepSt 10).1 [.tick 50, .tick 1000, .tick 100000]).1.find "o").isSome = true := by decide

/-- the general form of the loss: in a well-formed state an iteration that begins with a clock step makes no spawn
at all, whatever is due and whatever the new clock value is (`exactly_one` promises one per due task for `tick`) -/
theorem clock_step_no_spawn {s : St} (h : Inv s) (now : Nat) : (jump s now).2 = [] :=
  jump_no_spawn now h.sidU fun t ht ha hr => by
    cases hc : t.cbUnsched with
    | true => exact Or.inl rfl
    | false => exact Or.inr ((h.tinv' ht).drain ha hr hc)

/-- … and the state it leaves is no longer well-formed (the one-shot task of the witness contradicts `retire`) -/
theorem clock_step_breaks_inv : Inv stepSt ∧ ¬ Inv (jump stepSt 10).1 := by
  refine ⟨reachable_inv 0 _ ⟨fun i hi => ?_, trivial⟩, fun h => ?_⟩
  · simp only [List.mem_cons, List.not_mem_nil, or_false] at hi
    rcases hi with rfl | rfl <;> simp [instrSorted]
  · have : ∀ t ∈ (jump stepSt 10).1.tasks, t.occ = [] → t.nsim = 0 → t.cbUnsched = true :=
      fun t ht ho hn => (retire h ht ho hn).2.1
    exact absurd this (by decide)

end C04
