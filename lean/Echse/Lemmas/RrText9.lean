/-
  C05, rule text round trip — part 9: the BYDAY values themselves (ordinal + weekday name, `pack_cd` / `unpack_cd`).
-/
import Echse.Lemmas.RrText8
namespace Echse.RrText
open Echse.Rrule Echse.Strpf

/-- a packed BYDAY value: weekday 1..7 in the low three bits, ordinal -53..53 above -/
def CdOk (v : Int) : Prop := v % 8 ≠ 0 ∧ -53 ≤ v / 8 ∧ v / 8 ≤ 53

instance (v : Int) : Decidable (CdOk v) := by unfold CdOk; infer_instance

theorem wday_facts (w : Nat) (hw : 1 ≤ w ∧ w ≤ 7) (rest : List Char) :
    snarfWday (wdayName w ++ rest) = w ∧ strtol (wdayName w ++ rest) = (0, wdayName w ++ rest) ∧
    NoDig (wdayName w ++ rest) ∧ Avoid ',' (wdayName w) := by
  have : w = 1 ∨ w = 2 ∨ w = 3 ∨ w = 4 ∨ w = 5 ∨ w = 6 ∨ w = 7 := by omega
  rcases this with h | h | h | h | h | h | h <;> subst h <;>
    refine ⟨by simp [snarfWday, wdayName, chr], ?_, ?_, by decide⟩
  all_goals first
    | exact strtol_none _ _ (by decide) (by decide) (by decide) (by decide)
    | exact noDig_cons _ _ (by decide)

/-- one BYDAY value is read as its ordinal and its weekday -/
theorem sendCd_read (v : Int) (hv : CdOk v) (rest : List Char) :
    strtolC (sendCd v ++ rest) = (v / 8, wdayName (v % 8).toNat ++ rest) := by
  have hw : 1 ≤ (v % 8).toNat ∧ (v % 8).toNat ≤ 7 := by have := hv.1; omega
  obtain ⟨_, h2, h3, _⟩ := wday_facts _ hw rest
  unfold sendCd
  simp only
  by_cases hc : v / 8 = 0
  · simp only [hc, ne_eq, not_true_eq_false, if_false, List.nil_append]
    unfold strtolC
    rw [h2]
    rfl
  · simp only [hc, ne_eq, not_false_eq_true, if_true, List.append_assoc]
    exact strtolC_d _ _ h3 (by have := hv.2; omega)

theorem avoid_sendCd (v : Int) (_hv : CdOk v) : Avoid ';' (sendCd v) := by
  have hw : (v % 8).toNat < 8 := by omega
  have hall : ∀ w, w < 8 → Avoid ';' (wdayName w) := by decide
  unfold sendCd
  exact avoid_append (avoid_ite (avoid_fmtD (by decide) (by decide) _) (avoid_nil _)) (hall _ hw)

theorem byday_items (xs : List Int) (x : Int) (t : List Char) (acc : List Int) (fuel : Nat)
    (hok : ∀ y ∈ x :: xs, CdOk y) (hs : Skips t) (hf : xs.length < fuel) :
    bydayLoop fuel (sendCd x ++ moreVals sendCd xs t) acc = (x :: xs).foldl assI acc := by
  induction xs generalizing x acc fuel with
  | nil =>
    obtain ⟨f, rfl⟩ : ∃ f, fuel = f + 1 := ⟨fuel - 1, by simp at hf; omega⟩
    have hx := hok x (by simp)
    have hw : 1 ≤ (x % 8).toNat ∧ (x % 8).toNat ≤ 7 := by have := hx.1; omega
    obtain ⟨w1, _, _, w4⟩ := wday_facts _ hw t
    rw [bydayLoop, moreVals_nil, sendCd_read x hx t]
    have hcond : (x % 8).toNat ≠ 0 ∧ x / 8 ≥ -53 ∧ x / 8 ≤ 53 := ⟨by omega, hx.2.1, hx.2.2⟩
    have hval : x / 8 * 8 + ((x % 8).toNat : Int) = x := by omega
    simp only [w1, if_pos hcond, hval, List.foldl_cons, List.foldl_nil]
    have := skips_avoid _ _ w4 hs f (assI acc x)
    exact this
  | cons y ys ih =>
    obtain ⟨f, rfl⟩ : ∃ f, fuel = f + 1 := ⟨fuel - 1, by simp at hf; omega⟩
    have hx := hok x (by simp)
    have hw : 1 ≤ (x % 8).toNat ∧ (x % 8).toNat ≤ 7 := by have := hx.1; omega
    obtain ⟨w1, _, _, w4⟩ := wday_facts _ hw (moreVals sendCd (y :: ys) t)
    rw [bydayLoop, sendCd_read x hx _]
    have hcond : (x % 8).toNat ≠ 0 ∧ x / 8 ≥ -53 ∧ x / 8 ≤ 53 := ⟨by omega, hx.2.1, hx.2.2⟩
    have hval : x / 8 * 8 + ((x % 8).toNat : Int) = x := by omega
    simp only [w1, if_pos hcond, hval]
    rw [moreVals_cons, List.dropWhile_append_of_pos (fun a ha => by simpa using w4 a ha),
      List.dropWhile_cons_of_neg (by simp)]
    simp only
    rw [ih y (assI acc x) f (fun z hz => hok z (by simp at hz ⊢; right; exact hz)) (by simp at hf; omega)]
    rfl

theorem part_wday (r : Rule) (l : List Int) (t : List Char) (ht : Term t) (hs : Skips t) (hl : ∀ y ∈ l, CdOk y) :
    parseFrom r (sendPart "BYDAY".toList sendCd l ++ t) = parseFrom { r with dow := l.foldl assI r.dow } t := by
  cases l with
  | nil => rfl
  | cons x xs =>
    have hav : Avoid ';' (sendCd x ++ xs.flatMap (fun y => ',' :: sendCd y)) := by
      refine avoid_append (avoid_sendCd x (hl x (by simp))) ?_
      intro c hc
      obtain ⟨a, ha, hca⟩ := List.mem_flatMap.mp hc
      exact avoid_cons (by decide) (avoid_sendCd a (hl a (by simp [ha]))) c hca
    rw [sendPart_cons, part_kv r _ _ t (by decide) (by decide) (by decide) hav ht, value_moreVals]
    have hk : keyOf "BYDAY".toList = .wday := by decide
    rw [hk]
    simp only [keyStep]
    rw [byday_items xs x t r.dow _ hl hs (by
      have := moreVals_length sendCd xs t
      simp only [List.length_append]; omega)]
    rfl

end Echse.RrText
