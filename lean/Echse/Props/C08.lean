/-
  C08 — calendar-instant arithmetic (`echs_instant_fixup`, `_diff`, `_add`, the ordering
  predicates, and the epoch conversions) agrees with the calendar specification
  `Echse.Spec.Cal` on normal instants of the years 1901..2099 (the epoch conversions, signed, from
  1900-03-01 to 2100-02-28); the daemon's `instant_to_tstamp` (section 7) on every year.
  Statements only; helper lemmas live in Echse/Lemmas/Instant*.lean.
-/
import Echse.Lemmas.Instant
namespace C08
open Echse.Instant Echse.Spec.Cal

/-! ### 1. `diff` -/

/-- the point in time (milliseconds) at which that begins what an instant denotes: a millisecond is itself, a
second as such (`ms = allSec`) begins with its millisecond 0, a day as such (`H = allDay`) at its midnight -/
def startMs (i : Inst) : Int :=
  if i.H = allDay then days i.y i.m i.d * msPerDay
  else if i.ms = allSec then absSec i * 1000
  else absMs i

/-- a normal instant of any of the three kinds; the fields a day as such does not use, M and S, are zero (`diff`
subtracts them as they are; its `ms` may be anything) -/
def NormalAny (i : Inst) : Prop := Normal i ∨ NormalSec i ∨ (NormalDay i ∧ i.M = 0 ∧ i.S = 0)

instance (i : Inst) : Decidable (NormalAny i) := by unfold NormalAny; infer_instance

theorem startMs_ms (i : Inst) (h : Normal i) : startMs i = absMs i := by
  obtain ⟨-, a5, -, -, a8⟩ := h
  have h1 : ¬ i.H = allDay := by unfold allDay; omega
  have h2 : ¬ i.ms = allSec := by unfold allSec; omega
  simp [startMs, h1, h2]

theorem startMs_sec (i : Inst) (h : NormalSec i) : startMs i = absSec i * 1000 := by
  obtain ⟨-, a5, -, -, a8⟩ := h
  have h1 : ¬ i.H = allDay := by unfold allDay; omega
  simp [startMs, h1, a8]

theorem startMs_day (i : Inst) (h : NormalDay i) : startMs i = days i.y i.m i.d * 86400000 := by
  simp [startMs, h.2, msPerDay]

/-- the time of day of `startMs`, in the terms of `diff` -/
theorem startMs_eq (i : Inst) (h : NormalAny i) :
    startMs i = days i.y i.m i.d * 86400000 + ((hourOf i * 60 + (i.M : Int)) * 60 + (i.S : Int)) * 1000 + msecOf i ∧
    0 ≤ ((hourOf i * 60 + (i.M : Int)) * 60 + (i.S : Int)) * 1000 + msecOf i ∧
    ((hourOf i * 60 + (i.M : Int)) * 60 + (i.S : Int)) * 1000 + msecOf i < 86400000 := by
  rcases h with h | h | ⟨h, hM, hS⟩
  · rw [startMs_ms i h]
    obtain ⟨-, a5, a6, a7, a8⟩ := h
    rw [hourOf_timed i a5, msecOf_ms i a5 a8]
    refine ⟨by simp only [absMs, msPerDay], by omega, by omega⟩
  · rw [startMs_sec i h]
    obtain ⟨-, a5, a6, a7, a8⟩ := h
    rw [hourOf_timed i a5, msecOf_sec i a8]
    refine ⟨by simp only [absSec]; omega, by omega, by omega⟩
  · rw [startMs_day i h, hourOf_day i h.2, msecOf_day i h.2, hM, hS]
    refine ⟨?_, ?_, ?_⟩ <;> omega

/-- `diff` is the difference of the points in time (milliseconds) of ANY two normal instants, be they of one
kind or of two: the markers `allDay = 255` and `allSec = 1023` are no hours and no milliseconds. -/
theorem diff_spec (a b : Inst) (ha : NormalAny a) (hb : NormalAny b) (ra : InRange a) (rb : InRange b) :
    diff a b = startMs a - startMs b := by
  obtain ⟨ea, la, ua⟩ := startMs_eq a ha
  obtain ⟨eb, lb, ub⟩ := startMs_eq b hb
  have va : ValidDate a := by rcases ha with h | h | h; exact h.1; exact h.1; exact h.1.1
  have vb : ValidDate b := by rcases hb with h | h | h; exact h.1; exact h.1; exact h.1.1
  rw [diff_general a b ra rb va.1 va.2.1 vb.1 vb.2.1 _ rfl (by omega), ea, eb]
  omega

/-- millisecond resolution on both sides -/
theorem diff_spec_ms (a b : Inst) (ha : Normal a) (hb : Normal b) (ra : InRange a) (rb : InRange b) :
    diff a b = absMs a - absMs b := by
  rw [diff_spec a b (Or.inl ha) (Or.inl hb) ra rb, startMs_ms a ha, startMs_ms b hb]

/-- second resolution -/
theorem diff_spec_sec (a b : Inst) (ha : NormalSec a) (hb : NormalSec b) (ra : InRange a) (rb : InRange b) :
    diff a b = (absSec a - absSec b) * 1000 := by
  rw [diff_spec a b (Or.inr (Or.inl ha)) (Or.inr (Or.inl hb)) ra rb, startMs_sec a ha, startMs_sec b hb]
  omega

/-- all-day instants (the unused fields M and S agree, e.g. are all zero; `ms` is not looked at) -/
theorem diff_spec_day (a b : Inst) (ha : NormalDay a) (hb : NormalDay b) (ra : InRange a) (rb : InRange b)
    (hM : a.M = b.M) (hS : a.S = b.S) :
    diff a b = (days a.y a.m a.d - days b.y b.m b.d) * 86400000 := by
  obtain ⟨⟨a1, a2, -, -⟩, a5⟩ := ha
  obtain ⟨⟨b1, b2, -, -⟩, b5⟩ := hb
  rw [diff_general a b ra rb a1 a2 b1 b2 _ rfl
    (by rw [hourOf_day a a5, hourOf_day b b5, msecOf_day a a5, msecOf_day b b5]; omega)]
  rw [hourOf_day a a5, hourOf_day b b5, msecOf_day a a5, msecOf_day b b5]
  omega

/-- a second as such against a millisecond in it, a day as such against a second in it: never negative, and
less than the second, the day -/
theorem diff_sec_ms (a b : Inst) (ha : NormalSec a) (hb : Normal b) (ra : InRange a) (rb : InRange b)
    (h : absSec a = absMs b / 1000) : diff b a = absMs b % 1000 := by
  rw [diff_spec b a (Or.inl hb) (Or.inr (Or.inl ha)) rb ra, startMs_ms b hb, startMs_sec a ha, h]
  omega

theorem diff_day_sec (a b : Inst) (ha : NormalDay a) (hM : a.M = 0) (hS : a.S = 0) (hb : NormalSec b)
    (ra : InRange a) (rb : InRange b) (h : days a.y a.m a.d = days b.y b.m b.d) :
    diff b a = (((b.H : Int) * 60 + b.M) * 60 + b.S) * 1000 := by
  rw [diff_spec b a (Or.inr (Or.inl hb)) (Or.inr (Or.inr ⟨ha, hM, hS⟩)) rb ra, startMs_sec b hb, startMs_day a ha, h]
  simp only [absSec]; omega

/-! ### 2. `add` -/

/-- `add` moves a normal instant by `δ` milliseconds (this includes that the fuel of the
month loops in `addDays` suffices). -/
theorem add_spec (b : Inst) (δ : Int) (hb : Normal b) (rb : InRange b)
    (hlo : absMs ⟨1901,1,1,0,0,0,0⟩ ≤ absMs b + δ) (hhi : absMs b + δ < absMs ⟨2100,1,1,0,0,0,0⟩) :
    Normal (add b δ) ∧ InRange (add b δ) ∧ absMs (add b δ) = absMs b + δ :=
  Echse.Instant.add_spec b δ hb rb hlo hhi

/-- all-day: `k` days move the date by `k` days, H stays `allDay`, the other fields stay. -/
theorem add_spec_day (b : Inst) (k : Int) (hb : NormalDay b) (rb : InRange b)
    (hlo : days 1901 1 1 ≤ days b.y b.m b.d + k) (hhi : days b.y b.m b.d + k < days 2100 1 1) :
    NormalDay (add b (k * 86400000)) ∧ InRange (add b (k * 86400000)) ∧
    days (add b (k * 86400000)).y (add b (k * 86400000)).m (add b (k * 86400000)).d = days b.y b.m b.d + k ∧
    (add b (k * 86400000)).M = b.M ∧ (add b (k * 86400000)).S = b.S ∧ (add b (k * 86400000)).ms = b.ms := by
  have e : (k * 86400000).tdiv 86400000 = k := Int.mul_tdiv_cancel k (by decide)
  have := Echse.Instant.add_spec_day b (k * 86400000) hb rb (by rw [e]; exact hlo) (by rw [e]; exact hhi)
  rw [e] at this
  exact this

/-- all-day, any `δ`: the date moves by `δ / 86400000` days (C division, truncating). -/
theorem add_spec_day' (b : Inst) (δ : Int) (hb : NormalDay b) (rb : InRange b)
    (hlo : days 1901 1 1 ≤ days b.y b.m b.d + δ.tdiv 86400000)
    (hhi : days b.y b.m b.d + δ.tdiv 86400000 < days 2100 1 1) :
    NormalDay (add b δ) ∧ InRange (add b δ) ∧
    days (add b δ).y (add b δ).m (add b δ).d = days b.y b.m b.d + δ.tdiv 86400000 ∧
    (add b δ).M = b.M ∧ (add b δ).S = b.S ∧ (add b δ).ms = b.ms :=
  Echse.Instant.add_spec_day b δ hb rb hlo hhi

/-- second resolution: `k` seconds -/
theorem add_spec_sec (b : Inst) (k : Int) (hb : NormalSec b) (rb : InRange b)
    (hlo : days 1901 1 1 * 86400 ≤ absSec b + k) (hhi : absSec b + k < days 2100 1 1 * 86400) :
    NormalSec (add b (k * 1000)) ∧ InRange (add b (k * 1000)) ∧ absSec (add b (k * 1000)) = absSec b + k := by
  have e : (k * 1000).tdiv 1000 = k := Int.mul_tdiv_cancel k (by decide)
  have := Echse.Instant.add_spec_sec b (k * 1000) hb rb (by rw [e]; exact hlo) (by rw [e]; exact hhi)
  rw [e] at this
  exact this

/-- second resolution, any `δ`: the sub-second part of `δ` is dropped (truncating). -/
theorem add_spec_sec' (b : Inst) (δ : Int) (hb : NormalSec b) (rb : InRange b)
    (hlo : days 1901 1 1 * 86400 ≤ absSec b + δ.tdiv 1000) (hhi : absSec b + δ.tdiv 1000 < days 2100 1 1 * 86400) :
    NormalSec (add b δ) ∧ InRange (add b δ) ∧ absSec (add b δ) = absSec b + δ.tdiv 1000 :=
  Echse.Instant.add_spec_sec b δ hb rb hlo hhi

/-! ### 3. `add` and `diff` are inverse to each other -/

theorem absMs_injective (a b : Inst) (ha : Normal a) (hb : Normal b) (h : absMs a = absMs b) : a = b :=
  absMs_inj a b ha hb h

theorem add_diff (a b : Inst) (ha : Normal a) (hb : Normal b) (ra : InRange a) (rb : InRange b) :
    add b (diff a b) = a := by
  have hd := diff_spec_ms a b ha hb ra rb
  obtain ⟨l, u⟩ := absMs_bounds a ha ra
  obtain ⟨n, -, e⟩ := add_spec b (diff a b) hb rb (by rw [hd]; omega) (by rw [hd]; omega)
  exact absMs_inj _ _ n ha (by rw [e, hd]; omega)

theorem diff_add (b : Inst) (δ : Int) (hb : Normal b) (rb : InRange b)
    (hlo : absMs ⟨1901,1,1,0,0,0,0⟩ ≤ absMs b + δ) (hhi : absMs b + δ < absMs ⟨2100,1,1,0,0,0,0⟩) :
    diff (add b δ) b = δ := by
  obtain ⟨n, r, e⟩ := add_spec b δ hb rb hlo hhi
  rw [diff_spec_ms _ _ n hb r rb, e]; omega

/-- kinds mixed: from a millisecond `b`, the difference to an instant `a` of ANY kind leads to the point in time
at which `a` begins (the second's first millisecond, the day's midnight) -/
theorem add_diff_start (a b : Inst) (ha : NormalAny a) (hb : Normal b) (ra : InRange a) (rb : InRange b) :
    Normal (add b (diff a b)) ∧ InRange (add b (diff a b)) ∧ absMs (add b (diff a b)) = startMs a := by
  have hd := diff_spec a b ha (Or.inl hb) ra rb
  rw [startMs_ms b hb] at hd
  obtain ⟨ea, la, ua⟩ := startMs_eq a ha
  have va : ValidDate a := by rcases ha with h | h | h; exact h.1; exact h.1; exact h.1.1
  have l := days_ge_1901 a.y a.m a.d ra.1 va.1 va.2.1 va.2.2.1
  have u := days_lt_2100 a.y a.m a.d ra.2 va.1 va.2.1 va.2.2.2
  obtain ⟨n, r, e⟩ := add_spec b (diff a b) hb rb (by rw [hd, absMs_1901]; omega) (by rw [hd, absMs_2100]; omega)
  exact ⟨n, r, by rw [e, hd]; omega⟩

/-- the same for second resolution -/
theorem add_diff_sec (a b : Inst) (ha : NormalSec a) (hb : NormalSec b) (ra : InRange a) (rb : InRange b) :
    add b (diff a b) = a := by
  have hd := diff_spec_sec a b ha hb ra rb
  obtain ⟨l, u⟩ := absSec_bounds a ha ra
  have e : (diff a b).tdiv 1000 = absSec a - absSec b := by rw [hd]; exact Int.mul_tdiv_cancel _ (by decide)
  obtain ⟨n, -, e'⟩ := Echse.Instant.add_spec_sec b (diff a b) hb rb (by rw [e]; omega) (by rw [e]; omega)
  exact absSec_inj _ _ n ha (by rw [e', e]; omega)

/-! ### 4. `fixup` -/

/-- an overflowed timed instant denotes the same point in time after `fixup`, counting the
overflowed fields on from the first of the (possibly overflowed) month. -/
theorem fixup_spec (e : Inst) (hm1 : 1 ≤ e.m) (hm2 : e.m ≤ 36) (hd1 : 1 ≤ e.d) (hd2 : e.d ≤ 245)
    (hH : e.H ≤ 250) (hM : e.M ≤ 254) (hS : e.S ≤ 62) (hms : e.ms ≤ 1022) (hy1 : 1901 ≤ e.y) (hy2 : e.y ≤ 2095) :
    Normal (fixup e) ∧
    absMs (fixup e) = days (e.y + (e.m - 1) / 12) ((e.m - 1) % 12 + 1) 1 * 86400000 +
      ((e.d : Int) - 1) * 86400000 + (((e.H : Int) * 60 + e.M) * 60 + e.S) * 1000 + e.ms := by
  have := fixup_general e (by unfold allDay; omega) (by unfold allSec; omega) hm1 hy1 hd1
    (by omega) (by omega) (by omega) (by omega) (mfirst_lt _ _ _ (by omega) (by omega))
  exact ⟨this.1, this.2.2⟩

theorem fixup_inRange (e : Inst) (hm1 : 1 ≤ e.m) (hm2 : e.m ≤ 36) (hd1 : 1 ≤ e.d) (hd2 : e.d ≤ 245)
    (hH : e.H ≤ 250) (hM : e.M ≤ 254) (hS : e.S ≤ 62) (hms : e.ms ≤ 1022) (hy1 : 1901 ≤ e.y) (hy2 : e.y ≤ 2095) :
    InRange (fixup e) :=
  (fixup_general e (by unfold allDay; omega) (by unfold allSec; omega) hm1 hy1 hd1
    (by omega) (by omega) (by omega) (by omega) (mfirst_lt _ _ _ (by omega) (by omega))).2.1

/-- the general form: `fixup` is exact as long as no carry overflows its bit-field
(`S + ms/1000 < 64`, `M + … < 256`, `H + … < 256`, `d + … < 256`) and the result stays
before 2100; the fuel 300 of the month loop is then always sufficient (`d < 256`). -/
theorem fixup_spec_general (e : Inst) (hH : e.H ≠ allDay) (hms : e.ms ≠ allSec)
    (hm : 1 ≤ e.m) (hy : 1901 ≤ e.y) (hd : 1 ≤ e.d)
    (h0 : e.S + e.ms / 1000 < 64)
    (h1 : e.M + (e.S + e.ms / 1000) / 60 < 256)
    (h2 : e.H + (e.M + (e.S + e.ms / 1000) / 60) / 60 < 256)
    (h3 : e.d + (e.H + (e.M + (e.S + e.ms / 1000) / 60) / 60) / 24 < 256)
    (hT : days (e.y + (e.m - 1) / 12) ((e.m - 1) % 12 + 1) 1
            + (e.d + (e.H + (e.M + (e.S + e.ms / 1000) / 60) / 60) / 24 : Nat) - 1 < days 2100 1 1) :
    Normal (fixup e) ∧ InRange (fixup e) ∧
    absMs (fixup e) = days (e.y + (e.m - 1) / 12) ((e.m - 1) % 12 + 1) 1 * 86400000 +
      ((e.d : Int) - 1) * 86400000 + (((e.H : Int) * 60 + e.M) * 60 + e.S) * 1000 + e.ms :=
  fixup_general e hH hms hm hy hd h0 h1 h2 h3 hT

theorem fixup_idem (e : Inst) (h : Normal e) : fixup e = e := Echse.Instant.fixup_idem e h
theorem fixup_idem_sec (e : Inst) (h : NormalSec e) : fixup e = e := Echse.Instant.fixup_idem_sec e h
theorem fixup_idem_day (e : Inst) (h : NormalDay e) : fixup e = e := Echse.Instant.fixup_idem_day e h

/-! ### 5. the ordering predicates -/

/-- every field within the width of its bit-field -/
def Fits (i : Inst) : Prop :=
  i.y < 65536 ∧ i.m < 256 ∧ i.d < 256 ∧ i.H < 256 ∧ i.M < 256 ∧ i.S < 64 ∧ i.ms < 1024

instance (i : Inst) : Decidable (Fits i) := by unfold Fits; infer_instance

/-- the sort key: the mixed-radix number with digits
`(y, m, d, (H+1) mod 256, M, S, (ms+1) mod 1024)`, most significant first. -/
def key (i : Inst) : Nat :=
  (((((i.y * 256 + i.m) * 256 + i.d) * 256 + (i.H + 1) % 256) * 256 + i.M) * 64 + i.S) * 1024 + (i.ms + 1) % 1024

theorem pack_bump (i : Inst) (h : Fits i) : (bump i).pack = key i := by
  obtain ⟨h1, h2, h3, h4, h5, h6, h7⟩ := h
  simp only [Inst.pack, bump, key]
  omega

theorem ltP_spec (x y : Inst) (hx : Fits x) (hy : Fits y) : ltP x y = decide (key x < key y) := by
  unfold ltP; rw [pack_bump x hx, pack_bump y hy]

theorem leP_spec (x y : Inst) (hx : Fits x) (hy : Fits y) : leP x y = decide (key x ≤ key y) := by
  unfold leP; rw [pack_bump x hx, pack_bump y hy]
  by_cases h : key x ≤ key y
  · simp [h]
  · simp [h]; omega

/-- the order of the keys is the lexicographic order of the digits -/
theorem key_lt_iff (x y : Inst) (hx : Fits x) (hy : Fits y) :
    key x < key y ↔
      x.y < y.y ∨ x.y = y.y ∧ (x.m < y.m ∨ x.m = y.m ∧ (x.d < y.d ∨ x.d = y.d ∧
        ((x.H + 1) % 256 < (y.H + 1) % 256 ∨ (x.H + 1) % 256 = (y.H + 1) % 256 ∧ (x.M < y.M ∨ x.M = y.M ∧
          (x.S < y.S ∨ x.S = y.S ∧ (x.ms + 1) % 1024 < (y.ms + 1) % 1024))))) := by
  obtain ⟨h1, h2, h3, h4, h5, h6, h7⟩ := hx
  obtain ⟨g1, g2, g3, g4, g5, g6, g7⟩ := hy
  unfold key
  omega

/-- `Normal`, `NormalSec`, `NormalDay` instants (any year below 65536) fit, provided the
fields an all-day instant leaves unused do. -/
theorem fits_of_normal (i : Inst) (h : Normal i) (hy : i.y < 65536) : Fits i := by
  obtain ⟨⟨a1, a2, a3, a4⟩, a5, a6, a7, a8⟩ := h
  have := monthLen_pos i.y i.m a1 a2
  exact ⟨hy, by omega, by omega, by omega, by omega, by omega, by omega⟩
theorem fits_of_normalSec (i : Inst) (h : NormalSec i) (hy : i.y < 65536) : Fits i := by
  obtain ⟨⟨a1, a2, a3, a4⟩, a5, a6, a7, a8⟩ := h
  have := monthLen_pos i.y i.m a1 a2
  exact ⟨hy, by omega, by omega, by omega, by omega, by omega, by unfold allSec at a8; omega⟩
theorem fits_of_normalDay (i : Inst) (h : NormalDay i) (hy : i.y < 65536)
    (hM : i.M < 256) (hS : i.S < 64) (hms : i.ms < 1024) : Fits i := by
  obtain ⟨⟨a1, a2, a3, a4⟩, a5⟩ := h
  have := monthLen_pos i.y i.m a1 a2
  exact ⟨hy, by omega, by omega, by unfold allDay at a5; omega, hM, hS, hms⟩

/-- an all-day instant sorts before every timed instant of the same date -/
theorem allDay_lt_timed (x y : Inst) (hx : Fits x) (hy : Fits y) (hd : x.y = y.y ∧ x.m = y.m ∧ x.d = y.d)
    (hxH : x.H = allDay) (hyH : y.H ≠ allDay) : ltP x y = true := by
  rw [ltP_spec x y hx hy, decide_eq_true_eq, key_lt_iff x y hx hy]
  unfold allDay at hxH hyH
  have := hy.2.2.2.1
  omega

/-- … and an all-second instant before every instant of the same second with milliseconds -/
theorem allSec_lt_ms (x y : Inst) (hx : Fits x) (hy : Fits y)
    (hd : x.y = y.y ∧ x.m = y.m ∧ x.d = y.d ∧ x.H = y.H ∧ x.M = y.M ∧ x.S = y.S)
    (hxs : x.ms = allSec) (hys : y.ms ≠ allSec) : ltP x y = true := by
  rw [ltP_spec x y hx hy, decide_eq_true_eq, key_lt_iff x y hx hy]
  unfold allSec at hxs hys
  have := hy.2.2.2.2.2.2
  omega

/-- `ltP` is a strict weak order (the preimage of `<` under the packed word); no hypotheses needed -/
theorem ltP_irrefl (x : Inst) : ltP x x = false := by simp [ltP]
theorem ltP_trans (x y z : Inst) (h1 : ltP x y = true) (h2 : ltP y z = true) : ltP x z = true := by
  simp only [ltP, decide_eq_true_eq] at *; omega
theorem ltP_asymm (x y : Inst) (h : ltP x y = true) : ltP y x = false := by
  simp only [ltP, decide_eq_true_eq, decide_eq_false_iff_not] at *; omega
/-- incomparability is transitive -/
theorem ltP_incomp_trans (x y z : Inst) (h1 : ltP x y = false ∧ ltP y x = false)
    (h2 : ltP y z = false ∧ ltP z y = false) : ltP x z = false ∧ ltP z x = false := by
  simp only [ltP, decide_eq_false_iff_not] at *; omega
theorem leP_eq_not_ltP (x y : Inst) : leP x y = !ltP y x := by simp [leP, ltP]
theorem leP_total (x y : Inst) : leP x y = true ∨ leP y x = true := by
  simp only [leP, Bool.not_eq_true', decide_eq_false_iff_not]; omega
/-- on fitting instants incomparable means equal -/
theorem ltP_incomp_eq (x y : Inst) (hx : Fits x) (hy : Fits y) (h : ltP x y = false ∧ ltP y x = false) : x = y := by
  rw [ltP_spec x y hx hy, ltP_spec y x hy hx] at h
  simp only [decide_eq_false_iff_not] at h
  obtain ⟨h1, h2, h3, h4, h5, h6, h7⟩ := hx
  obtain ⟨g1, g2, g3, g4, g5, g6, g7⟩ := hy
  unfold key at h
  exact inst_ext x y (by omega) (by omega) (by omega) (by omega) (by omega) (by omega) (by omega)

/-- on normal timed instants the order is the order of the points in time -/
theorem ltP_absMs (x y : Inst) (hx : Normal x) (hy : Normal y) (hxy : x.y < 65536) (hyy : y.y < 65536) :
    ltP x y = decide (absMs x < absMs y) := by
  have fx := fits_of_normal x hx hxy
  have fy := fits_of_normal y hy hyy
  rw [ltP_spec x y fx fy]
  congr 1
  rw [key_lt_iff x y fx fy]
  obtain ⟨⟨a1, a2, a3, a4⟩, a5, a6, a7, a8⟩ := hx
  obtain ⟨⟨b1, b2, b3, b4⟩, b5, b6, b7, b8⟩ := hy
  have l1 := days_lt_of_lex x.y x.m x.d y.y y.m y.d a1 a2 a4 b1 b2 b3
  have l2 := days_lt_of_lex y.y y.m y.d x.y x.m x.d b1 b2 b4 a1 a2 a3
  simp only [absMs, msPerDay, eq_iff_iff]
  by_cases c1 : x.y < y.y ∨ (x.y = y.y ∧ (x.m < y.m ∨ (x.m = y.m ∧ x.d < y.d)))
  · have := l1 c1; omega
  · by_cases c2 : y.y < x.y ∨ (y.y = x.y ∧ (y.m < x.m ∨ (y.m = x.m ∧ y.d < x.d)))
    · have := l2 c2; omega
    · have e1 : x.y = y.y := by omega
      have e2 : x.m = y.m := by omega
      have e3 : x.d = y.d := by omega
      rw [e1, e2, e3]; omega

/-! ### 6. epoch conversions (tzob.c; signed, negative before 1970)

`__inst_to_epoch` and `__epoch_to_inst` count years from March to February with a leap day every fourth year,
which is the Gregorian rule from 1900-03-01 to 2100-02-28: the statements hold on the years 1901..2099 of this
file and, in the `_wide` forms, on that whole stretch. -/

/-- `__inst_to_epoch` is the number of seconds since 1970-01-01T00:00, negative before it (the milliseconds of a
`Normal` instant are ignored). -/
theorem toEpoch_spec (i : Inst) (h : NormalSec i ∨ Normal i) (hy1 : 1901 ≤ i.y) (hy2 : i.y ≤ 2099) :
    instToEpoch i = absSec i - epochDays * 86400 := by
  have : ValidDate i ∧ i.H < 24 := by
    rcases h with ⟨a, b, _⟩ | ⟨a, b, _⟩ <;> exact ⟨a, b⟩
  obtain ⟨⟨a1, a2, -, -⟩, b⟩ := this
  obtain ⟨r1, r2⟩ := myear_of_inRange i.y i.m hy1 hy2
  rw [instToEpoch_eq i a1 a2 r1 r2, if_pos (by omega)]
  simp only [absSec]; omega

/-- the same from 1900-03-01 to 2100-02-28 -/
theorem toEpoch_spec_wide (i : Inst) (h : NormalSec i ∨ Normal i)
    (hy1 : 1901 ≤ i.y ∨ (i.y = 1900 ∧ 3 ≤ i.m)) (hy2 : i.y ≤ 2099 ∨ (i.y = 2100 ∧ i.m ≤ 2)) :
    instToEpoch i = absSec i - epochDays * 86400 := by
  have : ValidDate i ∧ i.H < 24 := by
    rcases h with ⟨a, b, _⟩ | ⟨a, b, _⟩ <;> exact ⟨a, b⟩
  obtain ⟨⟨a1, a2, -, -⟩, b⟩ := this
  obtain ⟨r1, r2⟩ := myear_wide i.y i.m hy1 hy2
  rw [instToEpoch_eq i a1 a2 r1 r2, if_pos (by omega)]
  simp only [absSec]; omega

/-- the general form: only the month has to be a month; day, minute and second are counted on linearly and an
hour above 24 counts as 24. -/
theorem toEpoch_spec_general (i : Inst) (h1 : 1 ≤ i.m) (h2 : i.m ≤ 12)
    (hy1 : 1901 ≤ i.y ∨ (i.y = 1900 ∧ 3 ≤ i.m)) (hy2 : i.y ≤ 2099 ∨ (i.y = 2100 ∧ i.m ≤ 2)) :
    instToEpoch i = (days i.y i.m i.d - epochDays) * 86400 +
      (if i.H ≤ 24 then (i.H : Int) else 24) * 3600 + (i.M : Int) * 60 + i.S := by
  obtain ⟨r1, r2⟩ := myear_wide i.y i.m hy1 hy2
  rw [instToEpoch_eq i h1 h2 r1 r2]
  split <;> omega

/-- hence an ALL-DAY instant (`H = 255`) is converted as hour 24: the midnight that ENDS its day (and the unused
minute and second fields are counted on). -/
theorem toEpoch_spec_day (i : Inst) (h : NormalDay i)
    (hy1 : 1901 ≤ i.y ∨ (i.y = 1900 ∧ 3 ≤ i.m)) (hy2 : i.y ≤ 2099 ∨ (i.y = 2100 ∧ i.m ≤ 2)) :
    instToEpoch i = (days i.y i.m i.d - epochDays + 1) * 86400 + (i.M : Int) * 60 + i.S := by
  obtain ⟨⟨a1, a2, -, -⟩, b⟩ := h
  rw [toEpoch_spec_general i a1 a2 hy1 hy2, if_neg (by rw [b]; decide)]
  omega

/-- `__epoch_to_inst` yields the normal second-resolution instant `t` seconds after (before, for `t < 0`) the
epoch (`-2177452800` = 1901-01-01T00:00Z, `4102444800` = 2100-01-01T00:00Z). -/
theorem frEpoch_spec (t : Int) (h1 : -2177452800 ≤ t) (h2 : t < 4102444800) :
    NormalSec (epochToInstI t) ∧ absSec (epochToInstI t) = epochDays * 86400 + t :=
  ⟨(frEpoch t h1 h2).1, (frEpoch t h1 h2).2.2.2⟩

theorem frEpoch_year (t : Int) (h1 : -2177452800 ≤ t) (h2 : t < 4102444800) :
    1901 ≤ (epochToInstI t).y ∧ (epochToInstI t).y ≤ 2099 :=
  ⟨(frEpoch t h1 h2).2.1, (frEpoch t h1 h2).2.2.1⟩

/-- the same from 1900-03-01 (`-2203891200`, the origin of the day count of `__epoch_to_inst`) to 2100-02-28
(`4107542400` = 2100-03-01T00:00Z) -/
theorem frEpoch_spec_wide (t : Int) (h1 : -2203891200 ≤ t) (h2 : t < 4107542400) :
    NormalSec (epochToInstI t) ∧ absSec (epochToInstI t) = epochDays * 86400 + t ∧
    (1901 ≤ (epochToInstI t).y ∨ ((epochToInstI t).y = 1900 ∧ 3 ≤ (epochToInstI t).m)) ∧
    ((epochToInstI t).y ≤ 2099 ∨ ((epochToInstI t).y = 2100 ∧ (epochToInstI t).m ≤ 2)) := by
  obtain ⟨n, y1, y2, a⟩ := frEpochI t h1 h2
  exact ⟨n, a, wide_of_myear _ _ y1 y2⟩

/-- the conversion for times that are not negative (the callers that hold an unsigned time) -/
theorem frEpoch_spec_nat (t : Nat) (h : t < 4102444800) :
    NormalSec (epochToInst t) ∧ absSec (epochToInst t) = epochDays * 86400 + t ∧
    1970 ≤ (epochToInst t).y ∧ (epochToInst t).y ≤ 2099 := by
  obtain ⟨n, -, y2, a⟩ := frEpoch (t : Int) (by omega) (by omega)
  refine ⟨n, a, ?_, y2⟩
  rw [epochToInst_eq_I]
  obtain ⟨⟨a1, a2, a3, a4⟩, a5, a6, a7, -⟩ := n
  by_cases c : 1970 ≤ (epochToInstI t).y
  · exact c
  · have := days_lt_of_lex _ _ _ 1970 1 1 a1 a2 a4 (by omega) (by omega) (by omega) (Or.inl (by omega))
    simp only [absSec] at a
    have e : days 1970 1 1 = epochDays := rfl
    omega

theorem toEpoch_ge (i : Inst) (h : NormalSec i) (hy1 : 1901 ≤ i.y) (hy2 : i.y ≤ 2099) :
    -2177452800 ≤ instToEpoch i := by
  have e := toEpoch_spec i (Or.inl h) hy1 hy2
  obtain ⟨l, -⟩ := absSec_bounds i h ⟨hy1, hy2⟩
  rw [days_1901'] at l
  rw [epochDays_eq] at e
  omega

theorem toEpoch_lt (i : Inst) (h : NormalSec i) (hy1 : 1901 ≤ i.y) (hy2 : i.y ≤ 2099) :
    instToEpoch i < 4102444800 := by
  have e := toEpoch_spec i (Or.inl h) hy1 hy2
  obtain ⟨-, u⟩ := absSec_bounds i h ⟨hy1, hy2⟩
  rw [days_2100] at u
  rw [epochDays_eq] at e
  omega

/-- not negative exactly from 1970 on -/
theorem toEpoch_nonneg_iff (i : Inst) (h : NormalSec i) (hy1 : 1901 ≤ i.y) (hy2 : i.y ≤ 2099) :
    0 ≤ instToEpoch i ↔ 1970 ≤ i.y := by
  have e := toEpoch_spec i (Or.inl h) hy1 hy2
  obtain ⟨⟨a1, a2, a3, a4⟩, a5, a6, a7, -⟩ := h
  have e70 : days 1970 1 1 = epochDays := rfl
  simp only [absSec] at e
  constructor
  · intro h0
    by_cases c : 1970 ≤ i.y
    · exact c
    · have := days_lt_of_lex _ _ _ 1970 1 1 a1 a2 a4 (by omega) (by omega) (by omega) (Or.inl (by omega))
      omega
  · intro c
    have := days_ge_1970 i.y i.m i.d c a1 a2 a3
    omega

theorem epoch_roundtrip (i : Inst) (h : NormalSec i) (hy1 : 1901 ≤ i.y) (hy2 : i.y ≤ 2099) :
    epochToInstI (instToEpoch i) = i := by
  have e := toEpoch_spec i (Or.inl h) hy1 hy2
  obtain ⟨n, a⟩ := frEpoch_spec (instToEpoch i) (toEpoch_ge i h hy1 hy2) (toEpoch_lt i h hy1 hy2)
  exact absSec_inj _ _ n h (by rw [a, e]; omega)

theorem epoch_roundtrip' (t : Int) (h1 : -2177452800 ≤ t) (h2 : t < 4102444800) :
    instToEpoch (epochToInstI t) = t := by
  obtain ⟨n, y1, y2, a⟩ := frEpoch t h1 h2
  have e := toEpoch_spec _ (Or.inl n) y1 y2
  omega

/-- the round trips from 1900-03-01 to 2100-02-28 -/
theorem epoch_roundtrip_wide (i : Inst) (h : NormalSec i)
    (hy1 : 1901 ≤ i.y ∨ (i.y = 1900 ∧ 3 ≤ i.m)) (hy2 : i.y ≤ 2099 ∨ (i.y = 2100 ∧ i.m ≤ 2)) :
    epochToInstI (instToEpoch i) = i := by
  have e := toEpoch_spec_wide i (Or.inl h) hy1 hy2
  obtain ⟨⟨a1, a2, a3, a4⟩, a5, a6, a7, -⟩ := id h
  obtain ⟨l, u⟩ := days_wide i.y i.m i.d a1 a2 a3 a4 hy1 hy2
  rw [days_1900_3] at l
  rw [days_2100_3] at u
  have e' := e
  rw [epochDays_eq] at e'
  simp only [absSec] at e'
  obtain ⟨n, a, -⟩ := frEpoch_spec_wide (instToEpoch i) (by omega) (by omega)
  exact absSec_inj _ _ n h (by rw [a, e]; omega)

theorem epoch_roundtrip_wide' (t : Int) (h1 : -2203891200 ≤ t) (h2 : t < 4107542400) :
    instToEpoch (epochToInstI t) = t := by
  obtain ⟨n, a, y1, y2⟩ := frEpoch_spec_wide t h1 h2
  have e := toEpoch_spec_wide _ (Or.inl n) y1 y2
  omega

/-- for a time that is not negative -/
theorem epoch_roundtrip_nat (t : Nat) (h : t < 4102444800) : instToEpoch (epochToInst t) = t :=
  epoch_roundtrip' t (by omega) (by omega)

/-! ### 7. the daemon's timestamp (`instant_to_tstamp`, signed, every year)

`days` is the proleptic Gregorian day number for every year `y : Nat` (floor division on `Int`), so
these statements carry no year hypothesis at all: before 2001, before 1970 (negative results) and
from 2100 on alike. -/

/-- the general form: only the month has to be a month; the other fields are counted on linearly. -/
theorem tstamp_spec_general (i : Inst) (h1 : 1 ≤ i.m) (h2 : i.m ≤ 12) :
    instToTstamp i = (days i.y i.m i.d - epochDays) * 86400 +
      (if i.H = allDay then 0 else (i.H : Int) * 3600 + (i.M : Int) * 60 + i.S) := by
  rw [instToTstamp_eq i h1 h2]
  by_cases c : i.H = allDay
  · simp [Inst.isAllDay, c]
  · simp only [Inst.isAllDay, beq_iff_eq, c, if_false]; omega

/-- the timestamp of an all-day instant is the epoch time of its midnight (UTC), for every date. -/
theorem tstamp_spec_day (i : Inst) (h : NormalDay i) :
    instToTstamp i = (days i.y i.m i.d - epochDays) * 86400 := by
  obtain ⟨⟨a1, a2, -, -⟩, b⟩ := h
  rw [tstamp_spec_general i a1 a2, if_pos b]; omega

/-- the timestamp of a timed instant is the number of seconds since 1970-01-01T00:00 (negative
before), for every date. -/
theorem tstamp_spec_timed (i : Inst) (h : ValidDate i) (hH : i.H ≠ allDay) :
    instToTstamp i = (days i.y i.m i.d - epochDays) * 86400 + (i.H : Int) * 3600 + (i.M : Int) * 60 + i.S := by
  obtain ⟨a1, a2, -, -⟩ := h
  rw [tstamp_spec_general i a1 a2, if_neg hH]; omega

/-- the same against `absSec` -/
theorem tstamp_spec_sec (i : Inst) (h : NormalSec i ∨ Normal i) :
    instToTstamp i = absSec i - epochDays * 86400 := by
  have : ValidDate i ∧ i.H < 24 := by
    rcases h with ⟨a, b, _⟩ | ⟨a, b, _⟩ <;> exact ⟨a, b⟩
  obtain ⟨a, b⟩ := this
  rw [tstamp_spec_timed i a (by unfold allDay; omega)]
  simp only [absSec]; omega

/-- where the library's conversion `__inst_to_epoch` (every-4th-year rule) is right, 1901..2099 — before 1970
as well as after —, the two agree on timed instants. -/
theorem tstamp_spec (i : Inst) (h : NormalSec i ∨ Normal i) (hy1 : 1901 ≤ i.y) (hy2 : i.y ≤ 2099) :
    instToTstamp i = instToEpoch i := by
  rw [tstamp_spec_sec i h, toEpoch_spec i h hy1 hy2]

/-- the same from 1900-03-01 to 2100-02-28, which is all the library's rule allows: they differ on 1900-02-28
and on 2100-03-01 (witnesses below). -/
theorem tstamp_spec_wide (i : Inst) (h : NormalSec i ∨ Normal i)
    (hy1 : 1901 ≤ i.y ∨ (i.y = 1900 ∧ 3 ≤ i.m)) (hy2 : i.y ≤ 2099 ∨ (i.y = 2100 ∧ i.m ≤ 2)) :
    instToTstamp i = instToEpoch i := by
  rw [tstamp_spec_sec i h, toEpoch_spec_wide i h hy1 hy2]

/-- on ALL-DAY instants the two do NOT agree: the daemon takes the midnight that begins the day, the library
(hour clamped to 24) the midnight that ends it, a day later (unused minute and second fields zero). -/
theorem tstamp_day_vs_epoch (i : Inst) (h : NormalDay i) (hM : i.M = 0) (hS : i.S = 0)
    (hy1 : 1901 ≤ i.y ∨ (i.y = 1900 ∧ 3 ≤ i.m)) (hy2 : i.y ≤ 2099 ∨ (i.y = 2100 ∧ i.m ≤ 2)) :
    instToEpoch i = instToTstamp i + 86400 := by
  rw [tstamp_spec_day i h, toEpoch_spec_day i h hy1 hy2, hM, hS]; omega

/-- on record: 1970-01-01 as an all-day instant is `86400` for the library and `0` for the daemon -/
theorem allday_epoch_is_next_midnight :
    instToEpoch ⟨1970,1,1,255,0,0,0⟩ = 86400 ∧ instToTstamp ⟨1970,1,1,255,0,0,0⟩ = 0 ∧
    instToEpoch ⟨1970,1,1,255,0,0,0⟩ = instToEpoch ⟨1970,1,2,0,0,0,1023⟩ := by decide

/-- the timestamp is monotone in the point in time … -/
theorem tstamp_mono (x y : Inst) (hx : Normal x) (hy : Normal y) (h : absMs x ≤ absMs y) :
    instToTstamp x ≤ instToTstamp y := by
  rw [tstamp_spec_sec x (Or.inr hx), tstamp_spec_sec y (Or.inr hy)]
  obtain ⟨-, -, -, -, a⟩ := hx
  obtain ⟨-, -, -, -, b⟩ := hy
  simp only [absMs, absSec, msPerDay] at *
  omega

/-- … hence in the calendar order `ltP` of the C code -/
theorem tstamp_mono_ltP (x y : Inst) (hx : Normal x) (hy : Normal y) (hxy : x.y < 65536) (hyy : y.y < 65536)
    (h : ltP x y = true) : instToTstamp x ≤ instToTstamp y := by
  rw [ltP_absMs x y hx hy hxy hyy, decide_eq_true_eq] at h
  exact tstamp_mono x y hx hy (Int.le_of_lt h)

/-- at second resolution strictly so, and the timestamp determines the instant -/
theorem tstamp_lt_iff (x y : Inst) (hx : NormalSec x) (hy : NormalSec y) :
    instToTstamp x < instToTstamp y ↔ absSec x < absSec y := by
  rw [tstamp_spec_sec x (Or.inl hx), tstamp_spec_sec y (Or.inl hy)]; omega

theorem tstamp_injective (x y : Inst) (hx : NormalSec x) (hy : NormalSec y)
    (h : instToTstamp x = instToTstamp y) : x = y := by
  rw [tstamp_spec_sec x (Or.inl hx), tstamp_spec_sec y (Or.inl hy)] at h
  exact absSec_inj x y hx hy (by omega)

/-! ### the hypotheses are inhabited by non-trivial data (leap day, year end, range ends) -/

example : Normal ⟨2020,2,29,23,59,59,999⟩ ∧ InRange ⟨2020,2,29,23,59,59,999⟩ := by decide
example : Normal ⟨1901,1,1,0,0,0,0⟩ ∧ Normal ⟨2099,12,31,23,59,59,999⟩ := by decide
example : ¬ Normal ⟨1900,2,29,0,0,0,0⟩ ∧ ¬ Normal ⟨2021,2,29,0,0,0,0⟩ := by decide
example : NormalSec ⟨2000,2,29,12,0,0,1023⟩ ∧ NormalDay ⟨2020,12,31,255,0,0,0⟩ := by decide
example : diff ⟨2021,1,1,0,0,0,0⟩ ⟨2020,2,29,23,59,59,999⟩ = 26438400001 := by decide
-- kinds mixed (D194: the markers 1023 = all-second and 255 = all-day were subtracted as numbers)
example : diff ⟨2000,3,1,12,0,0,1023⟩ ⟨2000,3,1,12,0,0,0⟩ = 0 := by decide                -- was 1023
example : diff ⟨2000,3,1,12,0,0,0⟩ ⟨2000,3,1,12,0,0,1023⟩ = 0 := by decide
example : diff ⟨2000,3,1,13,0,0,1023⟩ ⟨2000,3,1,12,0,0,500⟩ = 3599500 := by decide
example : diff ⟨2000,3,3,255,0,0,0⟩ ⟨2000,3,1,12,0,0,1023⟩ = 129600000 := by decide
example : diff ⟨2000,3,1,12,0,0,1023⟩ ⟨2000,3,3,255,0,0,0⟩ = -129600000 := by decide
example : diff ⟨2000,3,3,255,0,0,0⟩ ⟨2000,3,3,0,0,0,0⟩ = 0 := by decide                   -- a day and its midnight
example : diff ⟨2000,3,3,255,0,0,1023⟩ ⟨2000,3,3,255,0,0,0⟩ = 0 := by decide               -- `ms` of a day is not looked at
example : NormalAny ⟨2000,3,3,255,0,0,0⟩ ∧ NormalAny ⟨2000,3,1,12,0,0,1023⟩ ∧ NormalAny ⟨2000,3,1,12,0,0,500⟩ := by decide
example : startMs ⟨2000,3,3,255,0,0,0⟩ - startMs ⟨2000,3,1,12,0,0,1023⟩ = 129600000 := by decide
example : add ⟨2000,3,1,12,0,0,500⟩ (diff ⟨2000,3,3,255,0,0,0⟩ ⟨2000,3,1,12,0,0,500⟩) = ⟨2000,3,3,0,0,0,0⟩ := by decide
example : add ⟨2021,1,1,0,0,0,0⟩ (-1) = ⟨2020,12,31,23,59,59,999⟩ := by decide
example : add ⟨2020,2,28,10,30,0,0⟩ 86400000 = ⟨2020,2,29,10,30,0,0⟩ := by decide
example : add ⟨2020,2,28,255,0,0,0⟩ (2 * 86400000) = ⟨2020,3,1,255,0,0,0⟩ := by decide
example : add ⟨1999,12,31,23,59,59,1023⟩ 1000 = ⟨2000,1,1,0,0,0,1023⟩ := by decide
example : absMs ⟨1901,1,1,0,0,0,0⟩ ≤ absMs ⟨2021,1,1,0,0,0,0⟩ + (-1) ∧
    absMs ⟨2021,1,1,0,0,0,0⟩ + (-1) < absMs ⟨2100,1,1,0,0,0,0⟩ := by decide
example : fixup ⟨2019,14,30,25,61,61,1001⟩ = ⟨2020,3,2,2,2,2,1⟩ := by decide
example : fixup ⟨2095,36,245,250,254,62,1022⟩ = ⟨2098,8,12,14,15,3,22⟩ := by decide
example : Fits ⟨2020,2,29,255,0,0,0⟩ ∧ Fits ⟨2020,2,29,0,0,0,0⟩ := by decide
example : ltP ⟨2020,2,29,255,0,0,0⟩ ⟨2020,2,29,0,0,0,0⟩ = true := by decide
example : ltP ⟨2020,2,29,23,59,59,1023⟩ ⟨2020,2,29,23,59,59,0⟩ = true := by decide
example : instToEpoch ⟨2000,2,29,12,0,0,1023⟩ = 951825600 := by decide
example : epochToInst 951825600 = ⟨2000,2,29,12,0,0,1023⟩ := by decide
example : epochToInst 4102444799 = ⟨2099,12,31,23,59,59,1023⟩ := by decide
-- before 1970: the last second of 1969, the first of 1901, the model's base year boundary (years run from March
-- 1948), the origin of the day count of `__epoch_to_inst` (1900-03-01) and the ends of the wide stretch
example : instToEpoch ⟨1969,12,31,23,59,59,1023⟩ = -1 ∧ epochToInstI (-1) = ⟨1969,12,31,23,59,59,1023⟩ := by decide
example : instToEpoch ⟨1970,1,1,0,0,0,1023⟩ = 0 ∧ epochToInstI 0 = ⟨1970,1,1,0,0,0,1023⟩ := by decide
example : instToEpoch ⟨1901,1,1,0,0,0,1023⟩ = -2177452800 ∧
    epochToInstI (-2177452800) = ⟨1901,1,1,0,0,0,1023⟩ := by decide
example : instToEpoch ⟨1948,2,29,0,0,0,1023⟩ = -689212800 ∧
    epochToInstI (-689212800) = ⟨1948,2,29,0,0,0,1023⟩ := by decide
example : instToEpoch ⟨1948,3,1,0,0,0,1023⟩ = -689126400 ∧
    epochToInstI (-689126400) = ⟨1948,3,1,0,0,0,1023⟩ := by decide
example : instToEpoch ⟨1948,2,29,23,59,59,1023⟩ + 1 = instToEpoch ⟨1948,3,1,0,0,0,1023⟩ := by decide
example : instToEpoch ⟨1900,3,1,0,0,0,1023⟩ = -2203891200 ∧
    epochToInstI (-2203891200) = ⟨1900,3,1,0,0,0,1023⟩ := by decide
example : instToEpoch ⟨2100,2,28,23,59,59,1023⟩ = 4107542399 ∧
    epochToInstI 4107542399 = ⟨2100,2,28,23,59,59,1023⟩ := by decide
example : instToEpoch ⟨1901,12,13,20,45,52,1023⟩ = -2147483648 := by decide      -- INT32_MIN
-- outside the stretch the every-4th-year rule is off by a day: a 1900-02-29 and a 2100-02-29 are counted
example : instToEpoch ⟨1900,2,28,0,0,0,1023⟩ + 2 * 86400 = instToEpoch ⟨1900,3,1,0,0,0,1023⟩ := by decide
example : instToEpoch ⟨1900,2,28,0,0,0,1023⟩ ≠ instToTstamp ⟨1900,2,28,0,0,0,1023⟩ := by decide
example : instToEpoch ⟨2100,3,1,0,0,0,1023⟩ = instToTstamp ⟨2100,3,1,0,0,0,1023⟩ + 86400 := by decide
example : (epochToInstI (-2203891201)).m = 0 := by decide     -- one second before the origin: no date at all
example : epochToInstI 4107542400 = ⟨2100,2,29,0,0,0,1023⟩ := by decide
example : instToTstamp ⟨2020,1,1,255,0,0,0⟩ = 1577836800 := by decide
example : instToTstamp ⟨1997,9,2,9,0,0,1023⟩ = 873190800 := by decide      -- before 2001
example : instToTstamp ⟨1969,12,31,23,59,59,1023⟩ = -1 := by decide
example : instToTstamp ⟨1960,2,29,255,0,0,0⟩ = -310521600 := by decide       -- before 1970
example : instToTstamp ⟨1900,2,28,255,0,0,0⟩ + 86400 = instToTstamp ⟨1900,3,1,255,0,0,0⟩ := by decide
example : instToTstamp ⟨2000,2,29,255,0,0,0⟩ = 951782400 := by decide
example : instToTstamp ⟨2000,2,29,12,0,0,1023⟩ = 951825600 := by decide
example : instToTstamp ⟨2100,2,28,255,0,0,0⟩ + 86400 = instToTstamp ⟨2100,3,1,255,0,0,0⟩ := by decide
example : instToTstamp ⟨2100,3,1,255,0,0,0⟩ = 4107542400 := by decide        -- no 2100-02-29
example : instToTstamp ⟨2400,2,29,255,0,0,0⟩ = 13574563200 := by decide
example : NormalDay ⟨1960,2,29,255,0,0,0⟩ ∧ NormalSec ⟨1997,9,2,9,0,0,1023⟩ ∧ NormalDay ⟨2100,3,1,255,0,0,0⟩ := by decide

end C08
