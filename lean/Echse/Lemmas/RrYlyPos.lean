/-
  Property C01 for the yearly filler, layer L3: BYSETPOS (no SHIFT, no BYEASTER).

    fillYly_sound_pos / fillYly_complete_pos   rules with BYSETPOS (`r.pos ≠ []`; `hf`: the rule's frequency, which
                                               `SetposOk` refers to, is YEARLY)
    fillYly_sound_all / fillYly_complete_all   with or without BYSETPOS, in the form of the daily / weekly theorems

  Both ways the code applies BYSETPOS are covered: `clr_poss` on the day set when a day has one instant, position
  counting during the emission (`tposp`) when it has several.
-/
import Echse.Lemmas.RrYlyPos1
import Echse.Lemmas.RrMlyPos
namespace Echse.Lemmas.RrYlyRfc
open Echse.Rrule Echse.Instant Echse.Spec.RrOk Echse.Lemmas.RrCandOk Echse.Spec.Rfc Echse.Lemmas.RrRfc
open Echse.Lemmas.RrCandRfc Echse.Lemmas.RrYlyOk Echse.Spec.Cal Echse.Spec.RuleExt Echse.Lemmas.RrMlyRfc
open Echse.Lemmas.RrOkBase

theorem yly_periodic_pos (r : Rule) (p : Inst) (hr : WfRule r) (hy : 1901 ≤ p.y) (hf : r.freq = 1)
    (x : Inst) (j : Nat) (hx : yTarget r p x) (hQ : SetposOk r p x) (hj : 64 - 1 ≤ j) (hjx : j ≤ yGi r p x) :
    ∃ x', (yTarget r p x' ∧ SetposOk r p x') ∧ yGi r p x' < j ∧ j ≤ yGi r p x' + (64 - 1) := by
  have hi := hr.inter
  obtain ⟨k, hk, hgk⟩ := yTarget_facts r p x (by omega) hx
  rw [hgk] at hjx
  have hkq : k = (k - 28 * ((k - j) / 28 + 1)) + 28 * ((k - j) / 28 + 1) := by omega
  obtain ⟨s1, s2, s3⟩ := yly_back r p x hy hx.1 hx.2.2.2 k (k - 28 * ((k - j) / 28 + 1)) ((k - j) / 28 + 1) hk hkq
  have sQ := yly_setpos_back r p x hy hf hx.1 hx.2.2.2 k (k - 28 * ((k - j) / 28 + 1)) ((k - j) / 28 + 1) hk hkq hQ
  have hN : 0 < ((k - j) / 28 + 1) * r.inter := Nat.mul_pos (by omega) (by omega)
  generalize hs : k - 28 * ((k - j) / 28 + 1) = s at *
  generalize ((k - j) / 28 + 1) * r.inter = N at *
  generalize hx' : back28 x N = x' at *
  have fy : x'.y = x.y - 28 * N := by rw [← hx']; rfl
  have hgs : yGi r p x' = s := by unfold yGi; rw [s2]; exact grid_div _ _ _ (by omega)
  have hs1 : 1 ≤ s := by omega
  have hpos : 0 < s * r.inter := Nat.mul_pos (by omega) (by omega)
  have hx2 := hx.2.2.2
  refine ⟨x', ⟨⟨s1, ?_, ?_, by omega⟩, sQ⟩, by rw [hgs]; omega, by rw [hgs]; omega⟩
  · exact ltP_asymm (ltP_of_year_lt p x' (by omega))
  · have hlt : ltP x' x = true := ltP_of_year_lt x' x (by omega)
    cases hu : ltP r.untl x' with
    | false => rfl
    | true => have := ltP_trans hu hlt; rw [hx.2.2.1] at this; cases this

/-- what the period of year `y` offers under BYSETPOS -/
def yEp (r : Rule) (p : Inst) (nti : Nat) (y : Nat) : List Inst :=
  posE (mkFillCtx r p nti) y (ylyCand (ylyCtxOf r p nti) y)

/-- … the entries of the year's list that BYSETPOS chooses -/
theorem mem_yEp_iff (r : Rule) (p : Inst) (nti : Nat) (hr : WfRule r) (hp : WfInst p)
    (hsup : YlySup r) (hy : 1901 ≤ p.y) (hf : r.freq = 1) (hsh : r.shift = 0) (hpos : r.pos ≠ [])
    (y : Nat) (hq : yReach r p y) (hy2 : y ≤ 2099) (z : Inst) :
    z ∈ yEp r p nti y ↔ z ∈ yE r p nti y ∧ SetposOk r p z := by
  unfold yEp
  rw [mem_posE_mk r p nti hr hsh hpos y _ (ylyCand_allVC r p nti hr hp y) z]
  show (∃ i, (yE r p nti y)[i]? = some z ∧ PosSel r.pos i (yE r p nti y).length) ↔ _
  constructor
  · rintro ⟨i, hi, hs'⟩
    exact ⟨List.mem_of_getElem? hi, (yE_setpos r p nti hr hp hsup hy hf hpos y hq hy2 z i hi).2 hs'⟩
  · rintro ⟨hz, hs'⟩
    obtain ⟨i, hi⟩ := List.getElem?_of_mem hz
    exact ⟨i, hi, (yE_setpos r p nti hr hp hsup hy hf hpos y hq hy2 z i hi).1 hs'⟩

theorem ylyLoop_aLoop_pos (r : Rule) (p : Inst) (nti : Nat) (hsh : r.shift = 0) (fuel y : Nat) :
    Sim (ylyLoop (ylyCtxOf r p nti) fuel y 64 {})
      (aLoop (mkFillCtx r p nti) 64 (fun y : Nat => y) (yEp r p nti) (fun y => (y + r.inter) % u32) fuel y 64 {}) := by
  have h := ylyLoop_sim (ylyCtxOf r p nti) (yEp r p nti) (by
    intro y a b hab
    rw [ylyCtxOf_k]
    exact finishPeriod_posE _ y _ a b (by rw [mkFillCtx_sh]; exact hsh) (mkFillCtx_nT r p nti) hab)
    fuel y 64 {} {} (Sim.rfl' _)
  exact h

theorem yEp_sub (r : Rule) (p : Inst) (nti : Nat) (hr : WfRule r) (hp : WfInst p)
    (hsup : YlySup r) (hy : 1901 ≤ p.y) (hf : r.freq = 1) (hsh : r.shift = 0) (hpos : r.pos ≠ [])
    (y : Nat) (hq : yReach r p y) (hy2 : y ≤ 2099) :
    (yEp r p nti y).Pairwise (fun a b => ltP a b = true) ∧ ∀ z ∈ yEp r p nti y, z ∈ yE r p nti y := by
  refine ⟨?_, fun z hz => ((mem_yEp_iff r p nti hr hp hsup hy hf hsh hpos y hq hy2 z).1 hz).1⟩
  exact posE_sorted r p nti hr hp y (by omega) _ (ylyCand_allVC r p nti hr hp y)

/-- C01, soundness of the yearly filler with BYSETPOS (no SHIFT, no BYEASTER) -/
theorem fillYly_sound_pos (r : Rule) (p : Inst) (n : Nat) (l : List Inst) (hr : WfRule r) (hp : WfInst p)
    (_hn : n ≤ 64) (hy : 1901 ≤ p.y) (hsup : YlySup r) (hsh : r.shift = 0) (hf : r.freq = 1)
    (hpos : r.pos ≠ []) (h : fillYly r p n = some l) : ∀ x ∈ l, YearlyInst r p x ∧ SetposOk r p x := by
  intro x hx
  rcases fillYly_cases r p n l hr hp hsh h with ⟨_, e⟩ | ⟨nti, _, e⟩
  · rw [e] at hx; cases hx
  · rw [e] at hx
    have hx := List.mem_reverse.mp hx
    rw [(ylyLoop_aLoop_pos r p nti hsh (ylyFuel nti) p.y).1] at hx
    have H := loopHyp_sub (fun y : Nat => y) (yE r p nti) (yEp r p nti)
      (fun y => (y + r.inter) % u32) (yly_loopHyp r p nti hr hp hsup hy)
      (fun y hq hy2 => yEp_sub r p nti hr hp hsup hy hf hsh hpos y hq hy2)
    rcases aLoop_mem (mkFillCtx r p nti) 64 _ _ _ H (ylyFuel nti) p.y 64 {}
      ⟨0, by simp⟩ x hx with h | ⟨q', r1, r2, r3, _⟩
    · cases h
    · obtain ⟨m1, m2⟩ := (mem_yEp_iff r p nti hr hp hsup hy hf hsh hpos q' r1 r2 x).1 r3
      exact ⟨yE_inst r p nti hr hp hsup hy q' r1 r2 x m1, m2⟩

/-- C01, completeness of the yearly filler with BYSETPOS (no SHIFT, no BYEASTER) -/
theorem fillYly_complete_pos (r : Rule) (p : Inst) (n : Nat) (l : List Inst) (hr : WfRule r) (hp : WfInst p)
    (_hn : n ≤ 64) (hy : 1901 ≤ p.y) (hsup : YlySup r) (hsh : r.shift = 0) (hf : r.freq = 1)
    (hpos : r.pos ≠ []) (h : fillYly r p n = some l)
    (x : Inst) (hx : YearlyInst r p x) (hsp : SetposOk r p x) (hge : absOf p ≤ absOf x)
    (hle : ltP r.untl x = false) (hxy : x.y ≤ 2099) :
    x ∈ l ∨ (l.length = capOf r n ∧ ∀ z ∈ l, ltP z x = true) := by
  have hT : yTarget r p x ∧ SetposOk r p x := ⟨⟨hx, (ge_seed hp hy hx.1 hxy hge).1, hle, hxy⟩, hsp⟩
  have hi := hr.inter
  rcases fillYly_cases r p n l hr hp hsh h with ⟨hc, e⟩ | ⟨nti, hc, e⟩
  · right; rw [e]; unfold capOf; rw [hc]; exact ⟨rfl, fun z hz => by cases hz⟩
  · have hsim := ylyLoop_aLoop_pos r p nti hsh (ylyFuel nti) p.y
    have hsubAll := fun y hq hy2 => yEp_sub r p nti hr hp hsup hy hf hsh hpos y hq hy2
    have H := loopHyp_sub (fun y : Nat => y) (yE r p nti) (yEp r p nti)
      (fun y => (y + r.inter) % u32) (yly_loopHyp r p nti hr hp hsup hy) hsubAll
    have G0 := yly_targetHyp r p nti hr hp hsup hy
    have G := targetHyp_sub (mkFillCtx r p nti) 64 (fun y : Nat => y) (yE r p nti) (yEp r p nti)
      (fun y => (y + r.inter) % u32) G0 (fun x => SetposOk r p x)
      (fun y hq hy2 => (hsubAll y hq hy2).2)
      (fun x y hx hQ hq he => by
        obtain ⟨y2, hm⟩ := G0.here x y hx hq he
        exact (mem_yEp_iff r p nti hr hp hsup hy hf hsh hpos y hq y2 x).2 ⟨hm, hQ⟩)
      (fun x j hx hQ hj hjx => yly_periodic_pos r p hr hy hf x j hx hQ hj hjx)
    have hg0 : yG r p p.y = 0 := yG_of r p p.y 0 (by omega) (by simp)
    have hI : CInv (mkFillCtx r p nti) 64 (fun y : Nat => y) (yEp r p nti) (yReach r p) (yG r p)
        (fun x => yTarget r p x ∧ SetposOk r p x) (yGi r p) p.y 64 {} := by
      refine ⟨⟨0, by simp⟩, ⟨rfl, Nat.zero_le _⟩, rfl, ?_, ?_, ?_⟩
      · intro w _ hlt; rw [hg0] at hlt; omega
      · intro z hz; cases hz
      · intro h _ _; omega
    have hB : 2099 < p.y + ylyFuel nti := by unfold ylyFuel; omega
    have hcomp := aLoop_complete (mkFillCtx r p nti) 64 _ _ _ H G (by decide) (ylyFuel nti) p.y 64 {} hI hB x hT
    have hbase := aLoop_base (mkFillCtx r p nti) 64 (fun y : Nat => y) (yEp r p nti)
      (fun y => (y + r.inter) % u32) (ylyFuel nti) p.y 64 {} rfl (Nat.zero_le _)
    rw [← hsim.1, ← hsim.2.1] at hcomp
    rw [← hsim.1, ← hsim.2.1] at hbase
    have hcap : capOf r n = nti := by unfold capOf; rw [hc]; rfl
    rw [e, hcap]
    rcases hcomp with h1 | ⟨h1, h2⟩
    · exact Or.inl (List.mem_reverse.mpr h1)
    · right
      refine ⟨?_, fun z hz => h2 z (List.mem_reverse.mp hz)⟩
      rw [List.length_reverse, ← hbase.1]
      have hk : (mkFillCtx r p nti).nti = nti := rfl
      rw [hk] at h1 hbase
      have : ¬ (ylyLoop (ylyCtxOf r p nti) (ylyFuel nti) p.y 64 {}).res < nti := by
        intro hlt; rw [decide_eq_true hlt] at h1; cases h1
      omega

/-- C01, soundness of the yearly filler (no SHIFT, no BYEASTER), with or without BYSETPOS -/
theorem fillYly_sound_all (r : Rule) (p : Inst) (n : Nat) (l : List Inst) (hr : WfRule r) (hp : WfInst p)
    (hn : n ≤ 64) (hy : 1901 ≤ p.y) (hsup : YlySup r) (hsh : r.shift = 0)
    (hf : r.pos ≠ [] → r.freq = 1) (h : fillYly r p n = some l) : ∀ x ∈ l, YearlyInst r p x ∧ SetposOk r p x := by
  by_cases hpos : r.pos = []
  · exact fillYly_sound r p n l hr hp hn hy hsup hsh hpos h
  · exact fillYly_sound_pos r p n l hr hp hn hy hsup hsh (hf hpos) hpos h

/-- C01, completeness of the yearly filler (no SHIFT, no BYEASTER), with or without BYSETPOS -/
theorem fillYly_complete_all (r : Rule) (p : Inst) (n : Nat) (l : List Inst) (hr : WfRule r) (hp : WfInst p)
    (hn : n ≤ 64) (hy : 1901 ≤ p.y) (hsup : YlySup r) (hsh : r.shift = 0)
    (hf : r.pos ≠ [] → r.freq = 1) (h : fillYly r p n = some l)
    (x : Inst) (hx : YearlyInst r p x) (hsp : SetposOk r p x) (hge : absOf p ≤ absOf x)
    (hle : ltP r.untl x = false) (hxy : x.y ≤ 2099) :
    x ∈ l ∨ (l.length = capOf r n ∧ ∀ z ∈ l, ltP z x = true) := by
  by_cases hpos : r.pos = []
  · exact fillYly_complete r p n l hr hp hn hy hsup hsh hpos h x hx hge hle hxy
  · exact fillYly_complete_pos r p n l hr hp hn hy hsup hsh (hf hpos) hpos h x hx hsp hge hle hxy

end Echse.Lemmas.RrYlyRfc
