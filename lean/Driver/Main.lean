import Driver.Bitint
import Driver.Instant
import Driver.Strpf
import Driver.Scale
import Driver.Sort
import Driver.Stream
import Driver.Tz
import Driver.Daemon
import Driver.Exec
import Driver.Ical
import Driver.Rrule
import Driver.RrFill
open Driver

def step (line : String) : String :=
  match (line.trimAscii.toString.splitOn " ").filter (· ≠ "") with
  | [] => "bad-op"
  | op :: args =>
    if op ∈ ["bui31", "bui63", "bi31", "bi63", "bi383", "bi447"] then runBitint op args
    else if op.startsWith "i." then runInstant op args
    else if op.startsWith "s." then runStrpf op args
    else if op.startsWith "c." then runScale op args
    else if op.startsWith "q." || op == "e.rdat" then runSort op args
    else if op == "m.run" then runStream args
    else if op == "z.seq" then runTz args
    else if op == "d.hist" then runDaemon args
    else if op == "x.run" then runExec args
    else if op == "p.lines" then runIcal args
    else if op.startsWith "y." then runRrule op args
    else if op == "r.fill" then runRrFill args
    else if op == "r.strm" then runRrStrm args
    else if op == "r.parse" then runRrParse args
    else if op == "r.print" then runRrPrint args
    else "bad-op"

partial def loop (h : IO.FS.Stream) (out : IO.FS.Stream) : IO Unit := do
  let line ← h.getLine
  if line.isEmpty then return ()
  out.putStrLn (step line)
  loop h out

def main : IO Unit := do
  let out ← IO.getStdout
  loop (← IO.getStdin) out
  out.flush
