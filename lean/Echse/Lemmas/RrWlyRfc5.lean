/-
  C01 for the weekly filler, part 5: where `fillWly` starts its loop; the offsets of a week are the weekdays of BYDAY
  (or the seed's weekday).
-/
import Echse.Lemmas.RrWlyRfc4
namespace Echse.Lemmas.RrRfc
open Echse.Rrule Echse.Instant Echse.Spec.RrOk Echse.Spec.Cal Echse.Spec.RuleExt Echse.Spec.Rfc
open Echse.Lemmas.RrOkBase

/-- the nibble word of the weekly filler -/
def wlyIncs (r : Rule) : Nat := if wlyWdMask r.dow ≠ 0 then wdIncsLoop 8 (wlyWdMask r.dow / 2) 0 0 0 else 0

/-- days from the first day the week loop looks at to the seed: the seed's weekday less one with BYDAY, else none -/
def wlyBack (r : Rule) (p : Inst) : Nat := if wlyWdMask r.dow ≠ 0 then wdayOf (dayOf p) - 1 else 0

theorem carry_prev {y' m' y m d : Nat} (hd1 : 1 ≤ d) (hd : d ≤ getNdom y m) (e1 : nxY y' m' = y) (e2 : nxM m' = m) :
    Carry y' m' (d + getNdom y' m') y m d := by
  refine Carry.step (by omega) ?_
  rw [e1, e2, Nat.add_sub_cancel]
  exact Carry.done hd

/-- where `fillWly` starts its week loop: on the Monday on or before the seed (with BYDAY), or on the seed -/
theorem fillWly_start (r : Rule) (p : Inst) (n nti : Nat) (hr : WfRule r) (hp : WfInst p) (hy1 : 1901 ≤ p.y)
    (hcap : capNti r n = some nti) :
    ∃ y0 m0 d0, VD y0 m0 d0 ∧ LowOk y0 m0 ∧ y0 ≤ p.y ∧ Carry y0 m0 (d0 + wlyBack r p) p.y p.m p.d ∧
      fillWly r p n = (wlyLoop (mkCtx r p nti (wlyIncs r)) (wlyDlyFuel y0 nti) y0 m0 d0 (getNdom y0 m0) []).map
        List.reverse := by
  unfold fillWly
  have hy := hp.year
  have hm := hp.month
  have hd := hp.day
  have hb := ndom_bounds p.y p.m hm.1 hm.2
  rw [if_neg (by rw [hr.scale]; omega)]
  simp only [hcap]
  rw [if_neg (by omega)]
  have hv : VD p.y p.m p.d := ⟨hm.1, hm.2, hd.1, hd.2⟩
  unfold wlyIncs wlyBack
  by_cases c2 : wlyWdMask r.dow ≠ 0
  · rw [if_pos c2, if_pos c2, if_pos c2]
    have hwe : ymdGetWday p.y p.m p.d = wdayOf (dayOf p) :=
      Echse.RuleExt.wday_eq p.y p.m p.d (by omega) (by omega) hm.1 hm.2 (by omega)
    have hw := wdayOf_range (dayOf p)
    rw [hwe]
    generalize wdayOf (dayOf p) = w at hw ⊢
    by_cases c3 : p.d ≤ w - 1
    · rw [if_pos c3]
      by_cases c4 : p.m - 1 = 0
      · have e1 : (p.y + u32 - 1) % u32 = p.y - 1 := by unfold u32; omega
        simp only [c4, ↓reduceIte, e1, ndom_dec]
        rw [if_neg (by omega)]
        simp only [Option.map_some]
        have hL : LowOk (p.y - 1) 12 := by unfold LowOk; omega
        have hC : Carry (p.y - 1) 12 (p.d + 31 - (w - 1) + (w - 1)) p.y p.m p.d := by
          have := carry_prev (y' := p.y - 1) (m' := 12) (y := p.y) (m := p.m) hd.1 hd.2
            (by unfold nxY; rw [if_pos (by omega)]; omega) (by unfold nxM; rw [if_pos (by omega)]; omega)
          rw [ndom_dec] at this
          have e : p.d + 31 - (w - 1) + (w - 1) = p.d + 31 := by omega
          rw [e]; exact this
        exact ⟨p.y - 1, 12, p.d + 31 - (w - 1), ⟨by omega, by omega, by omega, by rw [ndom_dec]; omega⟩, hL, by omega,
          hC, rfl⟩
      · simp only [c4, ↓reduceIte]
        have hb2 := ndom_bounds p.y (p.m - 1) (by omega) (by omega)
        rw [if_neg (by omega)]
        simp only [Option.map_some]
        have hL : LowOk p.y (p.m - 1) := by unfold LowOk; omega
        have hC : Carry p.y (p.m - 1) (p.d + getNdom p.y (p.m - 1) - (w - 1) + (w - 1)) p.y p.m p.d := by
          have := carry_prev (y' := p.y) (m' := p.m - 1) (y := p.y) (m := p.m) hd.1 hd.2
            (by unfold nxY; rw [if_neg (by omega)]) (by unfold nxM; rw [if_neg (by omega)]; omega)
          have e : p.d + getNdom p.y (p.m - 1) - (w - 1) + (w - 1) = p.d + getNdom p.y (p.m - 1) := by omega
          rw [e]; exact this
        exact ⟨p.y, p.m - 1, p.d + getNdom p.y (p.m - 1) - (w - 1), ⟨by omega, by omega, by omega, by omega⟩, hL, Nat.le_refl _,
          hC, rfl⟩
    · rw [if_neg c3]
      simp only [Option.map_some]
      have hC : Carry p.y p.m (p.d - (w - 1) + (w - 1)) p.y p.m p.d := by
        have e : p.d - (w - 1) + (w - 1) = p.d := by omega
        rw [e]; exact Carry.done hd.2
      exact ⟨p.y, p.m, p.d - (w - 1), ⟨by omega, by omega, by omega, by omega⟩, lowOk_seed hy1, Nat.le_refl _, hC, rfl⟩
  · rw [if_neg c2, if_neg c2, if_neg c2]
    exact ⟨p.y, p.m, p.d, hv, lowOk_seed hy1, Nat.le_refl _, Carry.done hd.2, rfl⟩

theorem bit_half (a k : Nat) : bit (a / 2) k = bit a (k + 1) := by
  rw [bit_eq, bit_eq, Nat.testBit_div_two]

theorem wlyIncs_nib (r : Rule) : nibOk 8 (wlyIncs r) 6 = true := by
  unfold wlyIncs
  split
  · have hm := wlyWdMask_lt r.dow
    exact wdIncs_ok (wlyWdMask r.dow / 2) (by omega)
  · exact nibOk_zero

/-- the offsets of a week: the weekdays of BYDAY (less one, from Monday), or the day the loop stands on -/
theorem wly_offs (r : Rule) (o : Nat) :
    o ∈ offs 8 (wlyIncs r) 0 ↔ (if plainDays r = [] then o = 0 else (o ≤ 6 ∧ ((o + 1 : Nat) : Int) ∈ plainDays r)) := by
  unfold wlyIncs
  have hm := wlyWdMask_lt r.dow
  by_cases c : wlyWdMask r.dow = 0
  · rw [if_neg (by omega), offs_zero, if_pos ((wlyWdMask_zero r).1 c)]
    exact List.mem_singleton
  · have hne : ¬ plainDays r = [] := fun e => c ((wlyWdMask_zero r).2 e)
    rw [if_pos c, if_neg hne]
    have h1 : 1 ≤ wlyWdMask r.dow / 2 := by
      by_cases z : wlyWdMask r.dow / 2 = 0
      · exfalso
        apply hne
        rw [plainDays_nil]
        intro k k1 k7 hk
        have := (wlyWdMask_bit r k k1 k7).2 ((mem_plainDays r k).2 ⟨hk, by omega, by omega⟩)
        rw [bit_small _ k (by omega) k1] at this
        cases this
      · omega
    rw [offs_wdIncs (wlyWdMask r.dow / 2) (by omega) h1, List.mem_filter, List.mem_range, bit_half]
    constructor
    · rintro ⟨a, b⟩
      exact ⟨by omega, (wlyWdMask_bit r (o + 1) (by omega) (by omega)).1 b⟩
    · rintro ⟨a, b⟩
      exact ⟨by omega, (wlyWdMask_bit r (o + 1) (by omega) (by omega)).2 b⟩

theorem wlyBack_eq (r : Rule) (p : Inst) : wlyBack r p = if plainDays r = [] then 0 else wdayOf (dayOf p) - 1 := by
  unfold wlyBack
  by_cases c : wlyWdMask r.dow = 0
  · rw [if_neg (by omega), if_pos ((wlyWdMask_zero r).1 c)]
  · rw [if_pos c, if_neg (fun e => c ((wlyWdMask_zero r).2 e))]

theorem fillWly_none (r : Rule) (p : Inst) (n : Nat) (hr : WfRule r) (hp : WfInst p) (hcap : capNti r n = none) :
    fillWly r p n = some [] := by
  unfold fillWly
  have hy := hp.year
  rw [if_neg (by rw [hr.scale]; omega)]
  simp only [hcap]

end Echse.Lemmas.RrRfc
