/-
  Model of `rrul_fill_yly` (src/evrrul.c): FREQ=YEARLY, SCALE=GREGORIAN.
  Branch-by-branch transcription; the candidate builders and the emission loop are in `Echse.Model.RrCand`.
  Tied to the C code by tools/rrfillprobe.py (`r.fill` lines through harness and model).
-/
import Echse.Model.RrCand
namespace Echse.Rrule
open Echse.Instant

/-- what `rrul_fill_yly` sets up before its loop -/
structure YlyCtx where
  k : FillCtx
  r : Rule
  ms : List Nat          -- `m[0 .. nm)`
  ds : List Int          -- `d[0 .. nd)`
  wdMask : Nat
  pdow : List Int        -- the weekday to go with BYWEEKNO when there is no BYDAY

/-- the candidates of year `y`: the body of the fill loop up to "limit by setpos" -/
def ylyCand (c : YlyCtx) (y : Nat) : List Nat :=
  let r := c.r
  let nm := c.ms.length
  let nd := c.ds.length
  let cand : List Nat := []
  -- stick to note 2 on page 44, RFC 5545
  let cand :=
    if c.wdMask ≠ 0 ∧ (nd ≠ 0 ∨ !r.doy.isEmpty) then cand                 -- yd/ymd, dealt with later
    else if c.wdMask ≠ 0 ∧ !r.wk.isEmpty then fillYlyYwd cand y r.wk r.dow
    else if !c.pdow.isEmpty then fillYlyYwd cand y r.wk c.pdow
    else if c.wdMask ≠ 0 ∧ nm ≠ 0 then
      let cand := if c.wdMask % 2 = 1 then fillYlyYmcw cand y r.dow c.ms else cand
      fillYlyMdAll cand y c.ms c.wdMask
    else if c.wdMask ≠ 0 then
      let cand := if c.wdMask % 2 = 1 then fillYlyYcw cand y r.dow else cand
      fillYlyYdAll cand y c.wdMask
    else cand
  -- extend by yd
  let cand := fillYlyYd cand y r.doy r.dow c.wdMask (nm > 0)
  -- extend by ymd; in presence of BYEASTER the months and days act as a filter
  let cand :=
    if !r.easter.isEmpty then fillYlyEastr cand y r.easter r.mon r.dom c.wdMask
    else if nm = 0 ∧ nd = 0 then cand
    else if nm = 0 then fillYlyYmdAllM cand y c.ds r.dow c.wdMask
    else if nd = 0 then fillYlyYmdAllD cand y c.ms c.wdMask
    else fillYlyYmd cand y c.ms c.ds r.dow c.wdMask
  -- weeks and year days have been expanded on their own account, the parts are meant to limit one another
  if r.easter.isEmpty ∧ (!r.wk.isEmpty ∨ !r.doy.isEmpty) then limCand cand y r.mon r.dom r.wk r.doy c.pdow
  else cand

/-- `for (res = 0, tries = 64; res < nti && --tries; y += rr->inter) { … }`.
`tries` is the value before the loop condition decrements it. -/
def ylyLoop (c : YlyCtx) : Nat → Nat → Nat → FillSt → FillSt
  | 0, _, _, st => st
  | fuel+1, y, tries, st =>
    if !(st.res < c.k.nti) then st else
    let tries := tries - 1
    if tries = 0 then st else
    if y > maxYear then st else                    -- beyond the supported range: break
    let st := finishPeriod c.k y (ylyCand c y) st
    if st.fin then st else
    ylyLoop c fuel ((y + c.r.inter) % u32) (if st.hit then 64 else tries) st

/-- `rrul_fill_yly(tgt, nti, rr)` with `*tgt = proto`: the instants written to `tgt[0 .. res)`.
`none`: not modelled (other scales; a proto carrying scale bits).

Fuel: the body runs only while `y ≤ 2099`, and `y` moves by `inter` modulo 2^32 from round to round.  With
`inter ≠ 0` the values of `y` inside the window 0..2099 are strictly monotone (up for a small `inter`, down for one
close to 2^32, out at once otherwise), so there are at most 2100 rounds.  With `inter = 0` the year stands still;
without a SHIFT every round that sets `tries` back also writes an instant (at most `nti` such rounds, the loop ends
once `res ≥ nti`) and no more than 63 rounds without a write follow one another: at most `64 * (nti + 1)` rounds.
(`inter = 0` with a SHIFT: the shift-collision test sets `tries` back without writing, the C loop may never end;
the model then stops when the fuel is used up.  The parser turns INTERVAL=4294967296 into `inter = 0`.) -/
def fillYly (r : Rule) (proto : Inst) (nti : Nat) : Option (List Inst) :=
  if r.scale ≠ 0 ∨ proto.y ≥ 4096 then none else
  match capNti r nti with
  | none => some []                                -- COUNT used up: `goto fin`
  | some nti =>
    -- `if (proto.m > 12U || proto.d > 31U) goto fin;` (naught is for no default)
    if proto.m > 12 ∨ proto.d > 31 then some [] else
    -- check if we're ymd only
    let ymdp := r.wk.isEmpty ∧ r.dow.isEmpty ∧ r.doy.isEmpty ∧ r.easter.isEmpty ∧ r.dom.isEmpty
    let k := mkFillCtx r proto nti
    let ms := r.mon.take 12
    let ms := if ms.isEmpty ∧ ymdp ∧ proto.m ≠ 0 then [proto.m] else ms
    let ds := r.dom.take 62
    let ds := if ds.isEmpty ∧ ymdp ∧ proto.d ≠ 0 then [(proto.d : Int)] else ds
    let wdMask := wdMaskOf r.dow
    -- BYWEEKNO without anything to pick the day, the weekday is DTSTART's then
    let pdow : List Int :=
      if wdMask = 0 ∧ !r.wk.isEmpty ∧ ds.isEmpty ∧ r.doy.isEmpty ∧ proto.m ≠ 0 ∧ proto.m ≤ 12 then
        [(ymdGetWday proto.y proto.m proto.d : Int)]
      else []
    -- `if ((dvalue > 0 || bday_p && !neg_p) && rr->inter <= y) y -= rr->inter;` go back a whole interval
    let y := proto.y
    let y := if (shDvalue r.shift > 0 ∨ (shBdayP r.shift ∧ !shNegP r.shift)) ∧ r.inter ≤ y then y - r.inter else y
    let c : YlyCtx := { k := k, r := r, ms := ms, ds := ds, wdMask := wdMask, pdow := pdow }
    some (ylyLoop c (64 * (nti + 1) + 2101) y 64 {}).out.reverse

end Echse.Rrule
