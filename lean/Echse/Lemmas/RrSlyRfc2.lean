/-
  C01, `fillSly` (FREQ=SECONDLY) against RFC 5545, part 2: the loop.  Soundness: whatever is written lies on the grid
  `seed + j * INTERVAL` and passes the limits.  Completeness: an instance not yet passed is written, unless the list
  fills up before it.
-/
import Echse.Lemmas.RrSlyRfc
import Echse.Lemmas.RrSubRfc4
namespace Echse.Lemmas.RrSlyRfc
open Echse.Rrule Echse.Instant Echse.Spec.RrOk Echse.Lemmas.RrSubOk Echse.Spec.Rfc Echse.Spec.Cal Echse.Spec.RuleExt
open Echse.Lemmas.RrSlyOk Echse.Lemmas.RrSubRfc

/-- what the loop has written: an instant of the grid `A0 + j * inter` that passes the limits -/
def SlyGood (r : Rule) (p : Inst) (A0 : Int) (z : Inst) : Prop :=
  VT z ∧ z.ms = p.ms ∧ SlyLim r z ∧ ∃ j : Nat, absOf z = A0 + ((j * r.inter : Nat) : Int)

theorem slyLoop_sound (r : Rule) (p : Inst) (k : Nat) (hr : WfRule r) (hms : p.ms < 1024) (A0 : Int) :
    ∀ (fuel y m d H M S w cnt : Nat) (acc acc' : List Inst), 1901 ≤ y → 1 ≤ m → m ≤ 12 → 1 ≤ d →
      d ≤ getNdom y m → H < 24 → M < 60 → S < 60 →
      (y ≤ 2099 → w = wdayOf (days y m d) ∧ ∃ j : Nat, cabs y m d H M S = A0 + ((j * r.inter : Nat) : Int)) →
      slyLoop (mkSubCtx r p k) fuel y m d H M S w (getNdom y m) cnt acc = some acc' →
      ∀ z ∈ acc', z ∈ acc ∨ SlyGood r p A0 z := by
  intro fuel
  induction fuel with
  | zero => intro y m d H M S w cnt acc acc' _ _ _ _ _ _ _ _ _ h; simp [slyLoop] at h
  | succ f ih =>
    intro y m d H M S w cnt acc acc' hy1 hm1 hm2 hd1 hd2 hH hM hS hinv h z hz
    have hnb := getNdom_bounds y m hm1 hm2
    rw [slyLoop_succ] at h
    split at h
    · cases h; exact Or.inl hz
    split at h
    · cases h; exact Or.inl hz
    split at h
    · cases h; exact Or.inl hz
    rename_i _ hY _
    have hy2 : y ≤ 2099 := by simp only [subMaxYear] at hY; omega
    obtain ⟨hw, j, hj⟩ := hinv hy2
    obtain ⟨hi1, hi2⟩ := mkSubCtx_inter r p k hr
    have hci := ctx_inter r p k hr
    obtain ⟨hX, hXa⟩ := cand_vt p y m d H M S hy1 hy2 hm1 hm2 hd1 hd2 hH hM hS
    have hhit := slyBody_hit r p k hr (cand p y m d H M S) hX hy1 hy2 w hw
    have hB := slyBody_inc (mkSubCtx r p k) hi1 hi2 y m d H M S w (getNdom y m) hH hM hS
    obtain ⟨j2, hmul⟩ := slyBody_mul (mkSubCtx r p k) hi1 hi2 y m d H M S w (getNdom y m) hH hM hS
    have hmk : mkInst y m d H M S (mkSubCtx r p k).proto.ms = cand p y m d H M S :=
      mkInst_id y m d H M S p.ms (by omega) hm2 (by omega) hH hM hS hms
    rw [hmk] at h
    simp only [cand] at hhit
    generalize slyBody (mkSubCtx r p k) y m d H M S w (getNdom y m) = bd at h hhit hB hmul
    obtain ⟨hit, inc⟩ := bd
    simp only at h hhit hB hmul
    obtain ⟨y', m', d', H', M', S', w', he, g1, g2, g3, g4, g5, g6, g7, g8, g9, g10⟩ :=
      slyStep_adv (mkSubCtx r p k) f y m d H M S w (if hit = true then cnt + 1 else cnt)
        (if hit = true then cand p y m d H M S :: acc else acc) inc hy1 hy2 hm1 hm2 hd1 hd2 hH hM hS hB.1 hB.2 hw
    rw [he] at h
    have hnext : y' ≤ 2099 → w' = wdayOf (days y' m' d') ∧
        ∃ j : Nat, cabs y' m' d' H' M' S' = A0 + ((j * r.inter : Nat) : Int) := by
      intro hy'
      have hlt : cabs y m d H M S + inc < days 2100 1 1 * 86400 := by
        by_cases c : cabs y m d H M S + inc < days 2100 1 1 * 86400
        · exact c
        · have := g10 (by omega); omega
      obtain ⟨_, e2, e3⟩ := g9 hlt
      refine ⟨e3, j + j2, ?_⟩
      rw [e2, hj, hmul, hci, Nat.add_mul]
      omega
    rcases ih y' m' d' H' M' S' w' _ _ acc' g1 g2 g3 g4 g5 g6 g7 g8 hnext h z hz with hin | hgood
    · cases hit with
      | false => exact Or.inl hin
      | true =>
        simp only [if_true] at hin
        rcases List.mem_cons.mp hin with e | e
        · right
          rw [e]
          exact ⟨hX, rfl, hhit.mp rfl, j, by rw [hXa, hj]⟩
        · exact Or.inl e
    · exact Or.inr hgood

theorem slyLoop_complete (r : Rule) (p : Inst) (k : Nat) (hr : WfRule r) (hms : p.ms < 1024)
    (x : Inst) (hx : VT x) (hxms : x.ms = p.ms) (hxl : SlyLim r x) (hxu : ltP r.untl x = false) (hxy : x.y ≤ 2099) :
    ∀ (fuel y m d H M S w cnt : Nat) (acc acc' : List Inst), 1901 ≤ y → y ≤ 2099 → 1 ≤ m → m ≤ 12 → 1 ≤ d →
      d ≤ getNdom y m → H < 24 → M < 60 → S < 60 → w = wdayOf (days y m d) →
      (∃ t : Nat, absOf x = cabs y m d H M S + ((t * r.inter : Nat) : Int)) →
      acc.length = cnt → cnt ≤ k → (∀ z ∈ acc, ltP z x = true) →
      slyLoop (mkSubCtx r p k) fuel y m d H M S w (getNdom y m) cnt acc = some acc' →
      x ∈ acc' ∨ (acc'.length = k ∧ ∀ z ∈ acc', ltP z x = true) := by
  intro fuel
  induction fuel with
  | zero => intro y m d H M S w cnt acc acc' _ _ _ _ _ _ _ _ _ _ _ _ _ _ h; simp [slyLoop] at h
  | succ f ih =>
    intro y m d H M S w cnt acc acc' hy1 hy2 hm1 hm2 hd1 hd2 hH hM hS hw ht hlen hcnt hbef h
    have hnb := getNdom_bounds y m hm1 hm2
    obtain ⟨t, ht⟩ := ht
    obtain ⟨hX, hXa⟩ := cand_vt p y m d H M S hy1 hy2 hm1 hm2 hd1 hd2 hH hM hS
    have hmk : mkInst y m d H M S (mkSubCtx r p k).proto.ms = cand p y m d H M S :=
      mkInst_id y m d H M S p.ms (by omega) hm2 (by omega) hH hM hS hms
    have hk : (mkSubCtx r p k).nti = k := rfl
    rw [slyLoop_succ, hmk, hk] at h
    split at h
    · cases h; exact Or.inr ⟨by omega, hbef⟩
    rename_i hA
    split at h
    · rename_i hY; simp only [subMaxYear] at hY; omega
    split at h
    · rename_i hU
      exfalso
      have hle := abs_le_bk (cand p y m d H M S) x hX hx hxms.symm (by rw [hXa, ht]; omega)
      have hU' : ltP r.untl (cand p y m d H M S) = true := hU
      rw [ltP_eq] at hU' hxu
      have h1 := of_decide_eq_true hU'
      have h2 := of_decide_eq_false hxu
      omega
    obtain ⟨hi1, hi2⟩ := mkSubCtx_inter r p k hr
    have hci := ctx_inter r p k hr
    have hskip := slyBody_skip r p k hr (cand p y m d H M S) hX hy1 hy2 w hw x t hx hxl (by rw [hXa, hci, ht])
    have hB := slyBody_inc (mkSubCtx r p k) hi1 hi2 y m d H M S w (getNdom y m) hH hM hS
    simp only [cand] at hskip
    generalize slyBody (mkSubCtx r p k) y m d H M S w (getNdom y m) = bd at h hskip hB
    obtain ⟨hit, inc⟩ := bd
    simp only at h hskip hB
    obtain ⟨y', m', d', H', M', S', w', he, g1, g2, g3, g4, g5, g6, g7, g8, g9, g10⟩ :=
      slyStep_adv (mkSubCtx r p k) f y m d H M S w (if hit = true then cnt + 1 else cnt)
        (if hit = true then cand p y m d H M S :: acc else acc) inc hy1 hy2 hm1 hm2 hd1 hd2 hH hM hS hB.1 hB.2 hw
    rw [he] at h
    rcases hskip with ⟨hh, h0⟩ | ⟨t', ht'⟩
    · -- the candidate is the instant looked for, and is written
      left
      have hxe : x = cand p y m d H M S := by
        apply abs_inj x _ hx hX hxms
        rw [hXa, ht, h0]; simp
      refine slyLoop_mono _ _ _ _ _ _ _ _ _ _ _ _ _ h x ?_
      rw [hh, if_pos rfl, hxe]
      exact List.mem_cons_self
    · have hxa : absOf x = cabs y m d H M S + inc + ((t' * r.inter : Nat) : Int) := by
        rw [ht, ← hci, ht']; omega
      have hlt := abs_lt_2100 x hx hxy
      obtain ⟨e1, e2, e3⟩ := g9 (by omega)
      refine ih y' m' d' H' M' S' w' _ _ acc' g1 e1 g2 g3 g4 g5 g6 g7 g8 e3 ⟨t', by rw [e2]; exact hxa⟩ ?_ ?_ ?_ h
      · cases hit <;> simp [hlen]
      · cases hit
        · simpa using hcnt
        · simp only [if_true]; omega
      · intro z hz
        cases hit with
        | false => exact hbef z hz
        | true =>
          simp only [if_true] at hz
          rcases List.mem_cons.mp hz with e | e
          · rw [e]
            exact abs_lt_ltP _ x hX hx hxms.symm (by rw [hXa, hxa]; omega)
          · exact hbef z e

end Echse.Lemmas.RrSlyRfc
