/-
  C13 — the executor routes the job's output as configured.

  For the model of `prep_task` (Echse/Model/Exec.lean), every input `so se same mo me`
  (OFILE set, EFILE set, both name the same file, MAIL-OUT, MAIL-ERR: all 2^5 combinations, of which
  20 are distinct, `same_irrelevant`) and EVERY list of chunks the job writes:
    * the file named by OFILE holds exactly the stdout bytes in order (`ofile_content`, `ofile_separate`), the file
      named by EFILE exactly the stderr bytes (`efile_content`); one shared file holds all
      chunks in write order (`shared_content`);
    * the mail body holds exactly the chunks of the requested streams, in write order, each once
      (`mail_content`), and is empty when no mail is requested;
    * nothing is written anywhere else (`nothing_elsewhere`);
    * the mail file is removed afterwards iff it is the temporary file, and there is a mail file iff
      some mail flag is set (`tmp_removed_iff`);
    * the plan for each of the 20 documented rows (`plan_table`).
  Statements only; helper lemmas live in Echse/Lemmas/Exec.lean.
  Sinks: 0 = /dev/null, 1 = the temporary file, 2 = the file named by OFILE, 3 = the file named by
  EFILE when that is a different name.  A chunk is `(isStdout, bytes)`.
-/
import Echse.Lemmas.Exec
namespace C13
open Echse.Exec

/-- the definitions used below are what their names say -/
theorem proj_def (f : Chunk → Bool) (chunks : List Chunk) :
    proj f chunks = ((chunks.filter f).map (·.2)).flatten := rfl
theorem outB_def (chunks : List Chunk) : outB chunks = ((chunks.filter (·.1)).map (·.2)).flatten := rfl
theorem errB_def (chunks : List Chunk) : errB chunks = ((chunks.filter (fun ch => !ch.1)).map (·.2)).flatten := rfl

/-! ### 1. OFILE -/

/-- OFILE set and not shared with EFILE: exactly the stdout bytes, in order -/
theorem ofile_separate (so se same mo me : Bool) (chunks : List Chunk)
    (hso : so = true) (hns : ¬ (se = true ∧ same = true)) :
    content (prep (Cfg.mk' so se same mo me)) 2 chunks = outB chunks := by
  rw [content_of_pointwise _ 2 _ (deliver_ofile so se same mo me)]
  apply proj_congr
  intro ch
  subst hso
  cases se <;> cases same <;> simp_all

/-- OFILE and EFILE name the same file: every chunk of either stream, in write order (so each
stream in its own order) -/
theorem shared_content (so se same mo me : Bool) (chunks : List Chunk)
    (hso : so = true) (hse : se = true) (hsame : same = true) :
    content (prep (Cfg.mk' so se same mo me)) 2 chunks = (chunks.map (·.2)).flatten := by
  rw [content_of_pointwise _ 2 _ (deliver_ofile so se same mo me), ← proj_true]
  apply proj_congr
  intro ch
  subst hso hse hsame
  simp

/-- both cases of a set OFILE -/
theorem ofile_content (so se same mo me : Bool) (chunks : List Chunk) :
    (so = true → ¬ (se = true ∧ same = true) →
      content (prep (Cfg.mk' so se same mo me)) 2 chunks = outB chunks) ∧
    (so = true ∧ se = true ∧ same = true →
      content (prep (Cfg.mk' so se same mo me)) 2 chunks = (chunks.map (·.2)).flatten) :=
  ⟨ofile_separate so se same mo me chunks,
   fun h => shared_content so se same mo me chunks h.1 h.2.1 h.2.2⟩

/-! ### 2. EFILE -/

/-- EFILE set and not shared with OFILE: exactly the stderr bytes, in order -/
theorem efile_content (so se same mo me : Bool) (chunks : List Chunk)
    (hse : se = true) (hns : ¬ (so = true ∧ same = true)) :
    content (prep (Cfg.mk' so se same mo me)) 3 chunks = errB chunks := by
  rw [content_of_pointwise _ 3 _ (deliver_efile so se same mo me)]
  apply proj_congr
  intro ch
  subst hse
  cases so <;> cases same <;> simp_all

/-! ### 3. mail -/

/-- the mail body: the chunks of the requested streams, in write order, nothing duplicated,
nothing else; for every input -/
theorem mail_content (so se same mo me : Bool) (chunks : List Chunk) :
    mailBody (prep (Cfg.mk' so se same mo me)) chunks =
      ((chunks.filter fun ch => if ch.1 then mo else me).map (·.2)).flatten :=
  mailBody_of_pointwise _ _ (deliver_mail so se same mo me) chunks

theorem mail_none (so se same : Bool) (chunks : List Chunk) :
    mailBody (prep (Cfg.mk' so se same false false)) chunks = [] := by
  rw [mail_content]; simp

theorem mail_out_only (so se same : Bool) (chunks : List Chunk) :
    mailBody (prep (Cfg.mk' so se same true false)) chunks = outB chunks := by
  rw [mail_content]; apply proj_congr; intro ch; cases ch.1 <;> rfl

theorem mail_err_only (so se same : Bool) (chunks : List Chunk) :
    mailBody (prep (Cfg.mk' so se same false true)) chunks = errB chunks := by
  rw [mail_content]; apply proj_congr; intro ch; cases ch.1 <;> rfl

theorem mail_both (so se same : Bool) (chunks : List Chunk) :
    mailBody (prep (Cfg.mk' so se same true true)) chunks = (chunks.map (·.2)).flatten := by
  rw [mail_content]
  exact (proj_congr _ _ (fun ch => by cases ch.1 <;> rfl) chunks).trans (proj_true chunks)

/-! ### 4. nothing elsewhere -/

theorem nothing_elsewhere (so se same mo me : Bool) (chunks : List Chunk) :
    (so = false → content (prep (Cfg.mk' so se same mo me)) 2 chunks = []) ∧
    (se = false ∨ (so = true ∧ same = true) → content (prep (Cfg.mk' so se same mo me)) 3 chunks = []) ∧
    content (prep (Cfg.mk' so se same mo me)) 0 chunks = [] ∧
    (∀ k, 4 ≤ k → content (prep (Cfg.mk' so se same mo me)) k chunks = []) := by
  refine ⟨?_, ?_, ?_, ?_⟩
  · intro h
    apply content_nil_of_pointwise
    intro ch; rw [deliver_ofile, h]; rfl
  · intro h
    apply content_nil_of_pointwise
    intro ch; rw [deliver_efile]
    rcases h with h | ⟨h1, h2⟩
    · rw [h]; rfl
    · rw [h1, h2]; cases se <;> rfl
  · exact content_nil_of_pointwise _ _ (deliver_nul _) chunks
  · intro k hk
    exact content_nil_of_pointwise _ _ (deliver_other so se same mo me k hk) chunks

/-! ### 5. the temporary file -/

theorem tmp_removed_iff (so se same mo me : Bool) :
    ((prep (Cfg.mk' so se same mo me)).mrm = true ↔ (prep (Cfg.mk' so se same mo me)).mfn = some tmp) ∧
    ((prep (Cfg.mk' so se same mo me)).mfn = none ↔ (mo = false ∧ me = false)) := by
  cases so <;> cases se <;> cases same <;> cases mo <;> cases me <;> decide

/-- the temporary file is only ever written when some mail flag is set -/
theorem tmp_untouched_without_mail (so se same : Bool) (chunks : List Chunk) :
    content (prep (Cfg.mk' so se same false false)) tmp chunks = [] :=
  content_nil_of_pointwise _ _ (deliver_tmp_nomail so se same) chunks

theorem tmp_written_only_for_mail (so se same mo me : Bool) (chunks : List Chunk)
    (h : content (prep (Cfg.mk' so se same mo me)) tmp chunks ≠ []) : mo = true ∨ me = true := by
  cases mo <;> cases me <;> simp_all [tmp_untouched_without_mail]

/-- when the mail file is the temporary file, its contents are the mail body -/
theorem tmp_is_mail (so se same mo me : Bool) (chunks : List Chunk)
    (h : (prep (Cfg.mk' so se same mo me)).mfn = some tmp) :
    content (prep (Cfg.mk' so se same mo me)) tmp chunks =
      ((chunks.filter fun ch => if ch.1 then mo else me).map (·.2)).flatten := by
  rw [← mail_content so se same mo me chunks, mailBody, h]

/-! ### 6. the documented table -/

/-- "same name" only matters when both names are given: the 2^5 inputs are 20 configurations -/
theorem same_irrelevant (so se mo me : Bool) (h : ¬ (so = true ∧ se = true)) :
    Cfg.mk' so se true mo me = Cfg.mk' so se false mo me := by
  cases so <;> cases se <;> simp_all [Cfg.mk']

/-- the file named by OFILE (`F`, `F1` in the table of echsx.c) -/
abbrev F1 : Sink := 2
/-- the file named by EFILE when it is another name (`F2`) -/
abbrev F2 : Sink := 3
/-- the five OFILE/EFILE situations of the table -/
abbrev cfg00 := Cfg.mk' false false false
abbrev cfg0F := Cfg.mk' false true false
abbrev cfgF0 := Cfg.mk' true false false
abbrev cfgFF := Cfg.mk' true true true
abbrev cfgF1F2 := Cfg.mk' true true false

/-- the plan for each of the 20 rows of the table in `prep_task` (fields not mentioned: `none` /
`false`; `piped`: stdout and stderr are pipes pumped into `mfd` and then the tee descriptor) -/
theorem plan_table :
    --         Mo    Me
    prep (cfg00 true  true ) = { ofd := some tmp, efd := some tmp, mfd := some tmp, mfn := some tmp, mrm := true } ∧   -- 1
    prep (cfg00 true  false) = { ofd := some tmp, efd := some nul, mfd := some tmp, mfn := some tmp, mrm := true } ∧   -- 2
    prep (cfg00 false true ) = { ofd := some nul, efd := some tmp, mfd := some tmp, mfn := some tmp, mrm := true } ∧   -- 3
    prep (cfg00 false false) = { ofd := some nul, efd := some nul } ∧                                                 -- 4
    prep (cfg0F true  true ) = { piped := true, mfd := some tmp, teee := some F2, mfn := some tmp, mrm := true } ∧     -- 5
    prep (cfg0F true  false) = { ofd := some tmp, efd := some F2, mfd := some tmp, mfn := some tmp, mrm := true } ∧    -- 6
    prep (cfg0F false true ) = { ofd := some nul, efd := some F2, mfd := some F2, mfn := some F2 } ∧                   -- 7
    prep (cfg0F false false) = { ofd := some nul, efd := some F2 } ∧                                                  -- 8
    prep (cfgF0 true  true ) = { piped := true, mfd := some tmp, teeo := some F1, mfn := some tmp, mrm := true } ∧     -- 9
    prep (cfgF0 true  false) = { ofd := some F1, efd := some nul, mfd := some F1, mfn := some F1 } ∧                   -- 10
    prep (cfgF0 false true ) = { ofd := some F1, efd := some tmp, mfd := some tmp, mfn := some tmp, mrm := true } ∧    -- 11
    prep (cfgF0 false false) = { ofd := some F1, efd := some nul } ∧                                                  -- 12
    prep (cfgFF true  true ) = { ofd := some F1, efd := some F1, mfd := some F1, mfn := some F1 } ∧                    -- 13
    prep (cfgFF true  false) = { piped := true, mfd := some F1, teeo := some tmp, mfn := some tmp, mrm := true } ∧     -- 14
    prep (cfgFF false true ) = { piped := true, mfd := some F1, teee := some tmp, mfn := some tmp, mrm := true } ∧     -- 15
    prep (cfgFF false false) = { ofd := some F1, efd := some F1 } ∧                                                   -- 16
    prep (cfgF1F2 true  true ) = { piped := true, mfd := some tmp, teeo := some F1, teee := some F2, mfn := some tmp, mrm := true } ∧  -- 17
    prep (cfgF1F2 true  false) = { ofd := some F1, efd := some F2, mfd := some F1, mfn := some F1 } ∧                  -- 18
    prep (cfgF1F2 false true ) = { ofd := some F1, efd := some F2, mfd := some F2, mfn := some F2 } ∧                  -- 19
    prep (cfgF1F2 false false) = { ofd := some F1, efd := some F2 } := by                                             -- 20
  decide

-- concrete instances
/-- row 14 of the table (same file, mail stdout only); name referenced by evidence/C13.json -/
theorem row14_mail_is_stdout :
    mailBody (prep (Cfg.mk' true true true true false)) [(true, [1, 2]), (false, [9]), (true, [3])] = [1, 2, 3] := by decide
example : content (prep (Cfg.mk' true true true true false)) 2 [(true, [1, 2]), (false, [9]), (true, [3])] = [1, 2, 9, 3] := by
  decide
example : content (prep (Cfg.mk' true true false true true)) 3 [(true, [1, 2]), (false, [9]), (true, [3]), (false, [8])] = [9, 8] := by
  decide
example : mailBody (prep (Cfg.mk' true true false true true)) [(true, [1, 2]), (false, [9]), (true, [3]), (false, [8])]
    = [1, 2, 9, 3, 8] := by decide
example : outB [(true, [1, 2]), (false, [9]), (true, [3])] = [1, 2, 3] ∧ errB [(true, [1, 2]), (false, [9]), (true, [3])] = [9] := by
  decide

end C13
