/-
  C01 for the daily filler, part 5: the specification's order and the code's; soundness and completeness of `fillDly`
  where it runs its own day loop (no hand-over to the weekly filler), without BYSETPOS.
-/
import Echse.Lemmas.RrDlyRfc4
namespace Echse.Lemmas.RrRfc
open Echse.Rrule Echse.Instant Echse.Spec.RrOk Echse.Spec.Cal Echse.Spec.RuleExt Echse.Spec.Rfc
open Echse.Lemmas.RrOkBase

/-- the seed is where round 0 of the day loop stands -/
theorem dly_start (r : Rule) (p : Inst) (nti : Nat) (hp : WfInst p) (hy1 : 1901 ≤ p.y) :
    Carry p.y p.m (rnd (dctx r p nti) 0) p.y p.m p.d ∧ ymdGetWday p.y p.m p.d = rndW (dctx r p nti) 0 := by
  have hpm := hp.month
  have hpd := hp.day
  have hy := hp.year
  have hb := ndom_bounds p.y p.m hpm.1 hpm.2
  constructor
  · show Carry p.y p.m (p.d + 0 * r.inter) p.y p.m p.d
    rw [Nat.zero_mul]; exact Carry.done hpd.2
  · rw [Echse.RuleExt.wday_eq p.y p.m p.d (by omega) (by omega) hpm.1 hpm.2 (by omega)]
    show _ = wdayOf (dayOf p + ((0 * r.inter : Nat) : Int))
    rw [Nat.zero_mul]; unfold dayOf; congr 1; omega

theorem dly_nh_sound (r : Rule) (p : Inst) (n nti : Nat) (l : List Inst) (hr : WfRule r) (hp : WfInst p)
    (hy : 1901 ≤ p.y) (hcap : capNti r n = some nti) (hh : ¬ Handover r)
    (h : fillDly r p n = some l) : ∀ x ∈ l, DailyInst r p x := by
  rw [fillDly_nh r p n nti hr hp hcap hh] at h
  obtain ⟨l', hl, rfl⟩ := Option.map_eq_some_iff.1 h
  obtain ⟨hc0, hw0⟩ := dly_start r p nti hp hy
  rw [hw0] at hl
  have he : EnumOk (dctx r p nti).e := makeEnum_ok r p hr hp
  intro x hx
  refine dlyLoop_sound (dctx r p nti) hr hp he (DailyInst r p) ?_ _ 0 p.y p.m p.d [] l' hc0
    (fun z hz => by cases hz) hl x (List.mem_reverse.1 hx)
  intro j y m d hc hy2 hsk t ht _ _ _
  exact dly_inst r p nti hr hp hy j y m d hc hy2 hsk t ht

/-- completeness of the day loop's run, given that the loop's BYSETPOS test lets `x` pass -/
theorem dly_nh_complete' (r : Rule) (p : Inst) (n nti : Nat) (l : List Inst) (hr : WfRule r) (hp : WfInst p)
    (hy : 1901 ≤ p.y) (hcap : capNti r n = some nti) (hh : ¬ Handover r)
    (h : fillDly r p n = some l) (x : Inst) (hx : DailyInst r p x) (hge : absOf p ≤ absOf x)
    (hle : ltP r.untl x = false) (hxy : x.y ≤ 2099)
    (hsk' : ∀ k ix, Carry p.y p.m (rnd (dctx r p nti) k) x.y x.m x.d →
      dlySkipDay (dctx r p nti) x.m x.d (rndW (dctx r p nti) k) (getNdom x.y x.m) = false →
      (ix, x.H, x.M, x.S) ∈ (makeEnum p r).timesIx → dlySkip (dctx r p nti) ix = false) :
    x ∈ l ∨ (l.length = nti ∧ ∀ z ∈ l, ltP z x = true) := by
  rw [fillDly_nh r p n nti hr hp hcap hh] at h
  obtain ⟨l', hl, rfl⟩ := Option.map_eq_some_iff.1 h
  obtain ⟨hc0, hw0⟩ := dly_start r p nti hp hy
  have he : EnumOk (dctx r p nti).e := makeEnum_ok r p hr hp
  have hv : VD p.y p.m p.d := ⟨hp.month.1, hp.month.2, hp.day.1, hp.day.2⟩
  have hpy := hp.year
  -- the result is a sane accumulator
  obtain ⟨l2, hl2, hacc⟩ := dlyLoop_spec (dctx r p nti) hr hp (wlyDlyFuel p.y nti) p.y p.m p.d
    (ymdGetWday p.y p.m p.d) [] hv (by omega) (fun _ => ⟨Acc.nil _ _ _, Below.nil _ _ _⟩)
    (enough_start p.y p.m p.d nti hv)
  rw [hl] at hl2
  cases hl2
  have hacc := hacc he
  rw [hw0] at hl
  obtain ⟨hgeP, hxin, -⟩ := ge_seed hp hy hx.1 hxy hge
  obtain ⟨k, hc, hsk, -, ix, hix⟩ := dly_inst_conv r p nti hr hp hy x hx hxy
  have hskip : dlySkip (dctx r p nti) ix = false := hsk' k ix hc hsk hix
  rcases dlyLoop_complete (dctx r p nti) hr hp he x k hc hxy hx.1.2.2.2.2.1 ix hix hskip hsk hgeP hle
    _ 0 p.y p.m p.d [] l' (Nat.zero_le _) hc0 (Acc.nil _ _ _) (Below.nil _ _ _) hl with a | ⟨b1, b2⟩
  · exact Or.inl (List.mem_reverse.2 a)
  · refine Or.inr ⟨by rw [List.length_reverse]; exact b1, ?_⟩
    intro z hz
    exact acc_ltP hacc hxin hx.1.2.2.2.2.1 b2 z (List.mem_reverse.1 hz)

theorem dly_nh_complete (r : Rule) (p : Inst) (n nti : Nat) (l : List Inst) (hr : WfRule r) (hp : WfInst p)
    (hy : 1901 ≤ p.y) (hpos : r.pos = []) (hcap : capNti r n = some nti) (hh : ¬ Handover r)
    (h : fillDly r p n = some l) (x : Inst) (hx : DailyInst r p x) (hge : absOf p ≤ absOf x)
    (hle : ltP r.untl x = false) (hxy : x.y ≤ 2099) :
    x ∈ l ∨ (l.length = nti ∧ ∀ z ∈ l, ltP z x = true) := by
  refine dly_nh_complete' r p n nti l hr hp hy hcap hh h x hx hge hle hxy ?_
  intro k ix _ _ _
  unfold dlySkip
  show ((!r.pos.isEmpty) && _) = false
  rw [hpos]; rfl

end Echse.Lemmas.RrRfc
