/-
  Daemon model: the spawns and the records of one loop iteration (`spawn_char`, `iter_spawns_uid`,
  `iterSpawns_eq`, `iterTask_keeps`, `iterTask_occ`), used by C04 and C12.
-/
import Echse.Lemmas.Daemon2
namespace Echse.Daemon

/-! ### what the stages keep -/

theorem rearm_keeps (now : Nat) (t : DTask) :
    (rearm now t).sid = t.sid ∧ (rearm now t).uid = t.uid ∧ (rearm now t).inTable = t.inTable ∧
    (rearm now t).nsim = t.nsim ∧ (rearm now t).owner = t.owner ∧ (rearm now t).maxSimul = t.maxSimul ∧
    (rearm now t).dur = t.dur ∧ (rearm now t).seq = t.seq := by
  unfold rearm
  split
  · cases hdw : t.occ.dropWhile (· < now) with
    | nil => rw [resched_nil hdw]; split <;> exact ⟨rfl, rfl, rfl, rfl, rfl, rfl, rfl, rfl⟩
    | cons e r => rw [resched_cons hdw]; exact ⟨rfl, rfl, rfl, rfl, rfl, rfl, rfl, rfl⟩
  · exact ⟨rfl, rfl, rfl, rfl, rfl, rfl, rfl, rfl⟩

/-- how many of the record's children the iteration reaps -/
def exitDec (ex : Option Nat) (x : DTask) : Nat := if ex = some x.sid then 1 else 0

theorem exitO_some {ex : Option Nat} {p : Bool} {x y : DTask} (h : exitO ex p x = some y) :
    y = { x with nsim := x.nsim - exitDec ex x } := by
  cases ex with
  | none => cases h; simp [exitDec]
  | some e =>
    simp only [exitO, exitTask] at h
    by_cases hb : x.sid = e
    · have hb' : (x.sid == e) = true := by simpa using hb
      have hd : exitDec (some e) x = 1 := by simp [exitDec, hb]
      rw [hd]
      rw [if_pos hb'] at h
      split at h
      · split at h
        · cases h
        · cases h; rfl
      · split at h
        · cases h
        · cases h; rfl
    · have hb' : (x.sid == e) = false := by simpa using hb
      have hd : exitDec (some e) x = 0 := by
        simp only [exitDec, Option.some.injEq]; rw [if_neg (fun h => hb h.symm)]
      rw [hd]
      rw [hb'] at h
      simp only [Bool.false_eq_true, if_false, Option.some.injEq] at h
      subst h; rfl

theorem cbTask_some {fail : Bool} {x y : DTask} (h : cbTask fail x = some y) :
    y = x ∨ y = { x with active := false } ∨ (runs fail x = true ∧ y = { x with nsim := x.nsim + 1 }) := by
  unfold cbTask at h
  split at h
  · cases h; exact Or.inl rfl
  split at h
  · split at h
    · cases h; exact Or.inr (Or.inl rfl)
    · cases h
  · split at h
    · rename_i hr; cases h; exact Or.inr (Or.inr ⟨hr, rfl⟩)
    · split at h
      · cases h
      · cases h; exact Or.inl rfl

/-! ### the spawns of one iteration -/

/-- the spawn `task_cb` makes for the record `t` -/
def mkSpawn (t : DTask) : Spawn := { uid := t.uid, nd := !mayRun t, durS := durSecs t.dur, asUid := t.owner }

theorem mem_spawnsOf {fail : Bool} {t : DTask} {sp : Spawn} (h : sp ∈ spawnsOf fail t) :
    t.inTable = true ∧ t.cbUnsched = false ∧ fail = false ∧ sp = mkSpawn t := by
  unfold spawnsOf at h
  split at h
  · cases h
  · rename_i hc
    simp only [Bool.or_eq_true, Bool.not_eq_eq_eq_not, Bool.not_true, not_or, Bool.not_eq_true] at hc
    simp only [List.mem_singleton] at h
    exact ⟨by simpa using hc.1.1, hc.1.2, hc.2, h⟩

/-- a due watcher whose callback is not `unsched` is an armed one -/
theorem due_armed {s : St} {now : Nat} {t : DTask} (ht : TInv s t) (hd : isDue now t = true)
    (hcb : (rearm now t).cbUnsched = false) : t.resched = true ∧ t.cur < now := by
  obtain ⟨hact, a, hdue, halt⟩ := isDue_iff.mp hd
  by_cases hr : t.resched = true
  · obtain ⟨_, _, _, a4, _⟩ := ht.armed hr
    rw [a4] at hdue; cases hdue
    exact ⟨hr, halt⟩
  · have hr' : t.resched = false := by simpa using hr
    exfalso
    unfold rearm at hcb
    rw [if_neg hr] at hcb
    have hcb' : t.cbUnsched = false := hcb
    have := ht.drain hact hr' hcb'
    rw [this] at hdue; cases hdue

/-- the record of an armed due watcher when its callback runs -/
theorem rearm_armed {s : St} {now : Nat} {t : DTask} (ht : TInv s t) (hr : t.resched = true) :
    (rearm now t).cbUnsched = false ∧ (rearm now t).occ = t.occ.dropWhile (· < now) := by
  obtain ⟨_, _, a3, _, _, _, a7⟩ := ht.armed hr
  unfold rearm
  rw [if_pos hr]
  cases hdw : t.occ.dropWhile (· < now) with
  | nil =>
    rw [resched_nil hdw]
    have : ¬ t.nrun = 0 := by omega
    rw [if_neg this]
    exact ⟨a3, rfl⟩
  | cons e r => rw [resched_cons hdw]; exact ⟨a3, rfl⟩

/-- every spawn of an iteration: which task, which armed occurrence, under which limit test -/
theorem spawn_char {s : St} {now : Nat} {ko : Option Nat} (h : Inv s) {sp : Spawn}
    (hsp : sp ∈ (iter s now ko).2) :
    ∃ t ∈ s.tasks, t.inTable = true ∧ t.resched = true ∧ t.occ.head? = some t.cur ∧ s.now ≤ t.cur ∧
      t.cur < now ∧ s.spawnFail = false ∧
      sp = { uid := t.uid, nd := !mayRun { t with nsim := t.nsim - exitDec (exitSid s ko) t },
             durS := durSecs t.dur, asUid := t.owner } := by
  obtain ⟨L, _, hmem, hsps, _, _⟩ := iter_spec s now ko h.sidU
  rw [hsps, List.mem_flatMap] at hsp
  obtain ⟨sid, hsid, hsp⟩ := hsp
  cases hg : s.get sid with
  | none => rw [onGet_none _ hg] at hsp; cases hsp
  | some t =>
    rw [onGet_some _ hg] at hsp
    obtain ⟨htm, _⟩ := get_some_mem hg
    have ht := h.tinv' htm
    unfold iterSpawns at hsp
    by_cases hd : isDue now t = true
    case neg => rw [if_neg hd] at hsp; cases hsp
    rw [if_pos hd] at hsp
    cases he : exitO (exitSid s ko) true (rearm now t) with
    | none => rw [he] at hsp; cases hsp
    | some t2 =>
      rw [he] at hsp
      simp only [] at hsp
      obtain ⟨h1, h2, h3, h4⟩ := mem_spawnsOf hsp
      have ht2 := exitO_some he
      have hk := rearm_keeps now t
      have hcb : (rearm now t).cbUnsched = false := by rw [ht2] at h2; exact h2
      obtain ⟨hr, hlt⟩ := due_armed ht hd hcb
      obtain ⟨a1, _, _, _, a5, a6, _⟩ := ht.armed hr
      refine ⟨t, htm, a1, hr, a5, a6, hlt, h3, ?_⟩
      rw [h4, ht2]
      simp only [mkSpawn, mayRun, hk.2.1, hk.2.2.2.1, hk.2.2.2.2.1, hk.2.2.2.2.2.1, hk.2.2.2.2.2.2.1, exitDec, hk.1]
      rfl

theorem exitO_pending {ex : Option Nat} {x : DTask} (hit : x.inTable = true) :
    exitO ex true x = some { x with nsim := x.nsim - exitDec ex x } := by
  cases ex with
  | none => simp [exitO, exitDec]
  | some e =>
    simp only [exitO, exitTask]
    by_cases hb : x.sid = e
    · have hb' : (x.sid == e) = true := by simpa using hb
      have hd : exitDec (some e) x = 1 := by simp [exitDec, hb]
      rw [hd, if_pos hb']
      simp [hit]
    · have hb' : (x.sid == e) = false := by simpa using hb
      have hd : exitDec (some e) x = 0 := by
        simp only [exitDec, Option.some.injEq]; rw [if_neg (fun h => hb h.symm)]
      rw [hd, hb']
      simp

/-- the spawns an iteration makes for one in-table record -/
theorem iterSpawns_eq {s : St} {now : Nat} {fail : Bool} {ex : Option Nat} {t : DTask} (ht : TInv s t)
    (hit : t.inTable = true) :
    iterSpawns now fail ex t =
      if t.resched = true ∧ t.cur < now ∧ fail = false then
        [{ uid := t.uid, nd := !mayRun { t with nsim := t.nsim - exitDec ex t },
           durS := durSecs t.dur, asUid := t.owner }]
      else [] := by
  unfold iterSpawns
  have hk := rearm_keeps now t
  by_cases hd : isDue now t = true
  · rw [if_pos hd]
    have hit' : (rearm now t).inTable = true := by rw [hk.2.2.1]; exact hit
    rw [exitO_pending hit']
    simp only []
    by_cases hr : t.resched = true
    · obtain ⟨hcb, _⟩ := rearm_armed (now := now) ht hr
      obtain ⟨_, hlt⟩ := due_armed ht hd hcb
      unfold spawnsOf
      simp only [hit', hcb, Bool.not_true, Bool.false_or]
      cases fail with
      | true => simp
      | false =>
        simp only [Bool.false_eq_true, if_false, hr, hlt, and_self, if_true]
        simp only [mayRun, hk.2.1, hk.2.2.2.1, hk.2.2.2.2.1, hk.2.2.2.2.2.1, hk.2.2.2.2.2.2.1, exitDec, hk.1]
        rfl
    · have hr' : t.resched = false := by simpa using hr
      obtain ⟨hact, a, hdue, _⟩ := isDue_iff.mp hd
      have hcb : t.cbUnsched = true := by
        cases hc : t.cbUnsched with
        | true => rfl
        | false => have := ht.drain hact hr' hc; rw [this] at hdue; cases hdue
      have : (rearm now t).cbUnsched = true := by unfold rearm; rw [if_neg hr]; exact hcb
      unfold spawnsOf
      simp [this, hr']
  · rw [if_neg hd]
    have hd' : isDue now t = false := by simpa using hd
    by_cases hr : t.resched = true
    · obtain ⟨_, a2, _, a4, _⟩ := ht.armed hr
      have : ¬ t.cur < now := by
        intro hlt
        have := isDue_iff.mpr ⟨a2, t.cur, a4, hlt⟩
        rw [this] at hd'; cases hd'
      simp [this]
    · simp [hr]

theorem iterSpawns_length (now : Nat) (fail : Bool) (ex : Option Nat) (t : DTask) :
    (iterSpawns now fail ex t).length ≤ 1 := by
  unfold iterSpawns
  split
  · cases exitO ex true (rearm now t) with
    | none => simp
    | some t2 => simp only [spawnsOf]; split <;> simp
  · simp

theorem mem_iterSpawns {now : Nat} {fail : Bool} {ex : Option Nat} {t : DTask} {sp : Spawn}
    (h : sp ∈ iterSpawns now fail ex t) : isDue now t = true ∧ sp.uid = t.uid ∧ t.inTable = true := by
  unfold iterSpawns at h
  by_cases hd : isDue now t = true
  case neg => rw [if_neg hd] at h; cases h
  rw [if_pos hd] at h
  cases he : exitO ex true (rearm now t) with
  | none => rw [he] at h; cases h
  | some t2 =>
    rw [he] at h
    obtain ⟨h1, _, _, h4⟩ := mem_spawnsOf h
    have ht2 := exitO_some he
    have hk := rearm_keeps now t
    refine ⟨hd, ?_, ?_⟩
    · rw [h4, ht2]; exact hk.2.1
    · rw [ht2] at h1; rw [← hk.2.2.1]; exact h1

/-- the spawns of an iteration that belong to the in-table task `t` -/
theorem iter_spawns_uid {s : St} (now : Nat) (ko : Option Nat) (h : Inv s) {t : DTask} (htm : t ∈ s.tasks)
    (hit : t.inTable = true) :
    (iter s now ko).2.filter (·.uid == t.uid) = iterSpawns now s.spawnFail (exitSid s ko) t := by
  obtain ⟨L, hnd, hmem, hsps, _, _⟩ := iter_spec s now ko h.sidU
  rw [hsps, List.filter_flatMap]
  rw [flatMap_single _ t.sid L hnd]
  · have hg := get_of_mem h.sidU htm
    split
    · rw [onGet_some _ hg, List.filter_eq_self]
      intro sp hsp
      simp [(mem_iterSpawns hsp).2.1]
    · rename_i hnl
      symm
      unfold iterSpawns
      rw [if_neg]
      intro hd
      exact hnl ((hmem _).mpr ⟨t, htm, hd, rfl⟩)
  · intro sid _ hne
    cases hg : s.get sid with
    | none => rw [onGet_none _ hg]; rfl
    | some t' =>
      rw [onGet_some _ hg, List.filter_eq_nil_iff]
      intro sp hsp
      obtain ⟨ht'm, ht's⟩ := get_some_mem hg
      obtain ⟨_, hu, hi⟩ := mem_iterSpawns hsp
      intro hp
      have : sp.uid = t.uid := by simpa using hp
      have := h.uidU t' ht'm t htm hi hit (hu.symm.trans this)
      rw [this] at ht's
      exact hne ht's.symm

/-! ### the record after an iteration -/

theorem iterTask_keeps {now : Nat} {fail : Bool} {ex : Option Nat} {t t' : DTask}
    (h : iterTask now fail ex t = some t') :
    t'.sid = t.sid ∧ t'.uid = t.uid ∧ t'.owner = t.owner ∧ t'.inTable = t.inTable ∧ t'.maxSimul = t.maxSimul ∧
    t'.seq = t.seq ∧ t'.dur = t.dur := by
  unfold iterTask at h
  by_cases hd : isDue now t = true
  · rw [if_pos hd] at h
    cases he : exitO ex true (rearm now t) with
    | none => rw [he] at h; cases h
    | some t2 =>
      rw [he] at h
      simp only [Option.bind_some] at h
      have h2 := exitO_some he
      have hk := rearm_keeps now t
      rcases cbTask_some h with h3 | h3 | ⟨_, h3⟩ <;>
      · rw [h3, h2]
        exact ⟨hk.1, hk.2.1, hk.2.2.2.2.1, hk.2.2.1, hk.2.2.2.2.2.1, hk.2.2.2.2.2.2.2, hk.2.2.2.2.2.2.1⟩
  · rw [if_neg hd] at h
    rw [exitO_some h]
    exact ⟨rfl, rfl, rfl, rfl, rfl, rfl, rfl⟩

/-- `nsim` goes up (by one) only when the limit test of `task_cb` passed -/
theorem iterTask_nsim {now : Nat} {fail : Bool} {ex : Option Nat} {t t' : DTask}
    (h : iterTask now fail ex t = some t') :
    t'.nsim ≤ t.nsim ∨ (t'.nsim = t.nsim - exitDec ex t + 1 ∧
      (t.maxSimul ≥ unlimited ∨ t.nsim - exitDec ex t < t.maxSimul)) := by
  unfold iterTask at h
  by_cases hd : isDue now t = true
  · rw [if_pos hd] at h
    cases he : exitO ex true (rearm now t) with
    | none => rw [he] at h; cases h
    | some t2 =>
      rw [he] at h
      simp only [Option.bind_some] at h
      have h2 := exitO_some he
      have hk := rearm_keeps now t
      have hn2 : t2.nsim = t.nsim - exitDec ex t := by
        rw [h2]; simp only [exitDec, hk.1, hk.2.2.2.1]
      rcases cbTask_some h with h3 | h3 | ⟨hr, h3⟩
      · left; rw [h3, hn2]; omega
      · left; rw [h3]; simp only []; rw [hn2]; omega
      · right
        have hm : mayRun t2 = true := by
          simp only [runs, Bool.and_eq_true] at hr; exact hr.1.2
        refine ⟨by rw [h3]; simp only []; rw [hn2], ?_⟩
        have hms : t2.maxSimul = t.maxSimul := by rw [h2]; exact hk.2.2.2.2.2.1
        simp only [mayRun, Bool.or_eq_true, decide_eq_true_eq, hms, hn2] at hm
        exact hm
  · rw [if_neg hd] at h
    left
    rw [exitO_some h]; simp only []; omega

theorem sorted_head_le : ∀ (l : List Nat) (c : Nat), l.Pairwise (· ≤ ·) → l.head? = some c → ∀ o ∈ l, c ≤ o := by
  intro l c hs hh o ho
  cases l with
  | nil => cases hh
  | cons a r =>
    simp only [List.head?_cons, Option.some.injEq] at hh
    subst hh
    rw [List.pairwise_cons] at hs
    rcases List.mem_cons.mp ho with rfl | ho
    · exact Nat.le_refl _
    · exact hs.1 o ho

/-- the occurrences of an in-table task are not in the past -/
theorem occ_ge_now {s : St} {t : DTask} (ht : TInv s t) (hit : t.inTable = true) : ∀ o ∈ t.occ, s.now ≤ o := by
  intro o ho
  by_cases hr : t.resched = true
  · obtain ⟨_, _, _, _, a5, a6, _⟩ := ht.armed hr
    have := sorted_head_le t.occ t.cur ht.sorted a5 o ho
    omega
  · have := (ht.done (by simpa using hr) hit).1
    rw [this] at ho; cases ho

/-- one iteration drops exactly the occurrences earlier than `now` -/
theorem iterTask_occ {s : St} {now : Nat} {fail : Bool} {ex : Option Nat} {t t' : DTask} (ht : TInv s t)
    (hit : t.inTable = true) (h : iterTask now fail ex t = some t') :
    t'.occ = t.occ.filter (fun o => decide (now ≤ o)) := by
  unfold iterTask at h
  by_cases hd : isDue now t = true
  · rw [if_pos hd] at h
    cases he : exitO ex true (rearm now t) with
    | none => rw [he] at h; cases h
    | some t2 =>
      rw [he] at h
      simp only [Option.bind_some] at h
      have h2 := exitO_some he
      have ho : t'.occ = (rearm now t).occ := by
        rcases cbTask_some h with h3 | h3 | ⟨_, h3⟩ <;> rw [h3, h2]
      rw [ho]
      by_cases hr : t.resched = true
      · rw [(rearm_armed ht hr).2]
        exact dropWhile_eq_filter_of_sorted now t.occ ht.sorted
      · have := (ht.done (by simpa using hr) hit).1
        unfold rearm
        rw [if_neg hr, this]; rfl
  · rw [if_neg hd] at h
    have hd' : isDue now t = false := by simpa using hd
    rw [exitO_some h]
    simp only []
    symm
    rw [List.filter_eq_self]
    intro o ho
    by_cases hr : t.resched = true
    · obtain ⟨_, a2, _, a4, a5, _, _⟩ := ht.armed hr
      have h1 := sorted_head_le t.occ t.cur ht.sorted a5 o ho
      have : ¬ t.cur < now := by
        intro hlt
        have := isDue_iff.mpr ⟨a2, t.cur, a4, hlt⟩
        rw [this] at hd'; cases hd'
      simp; omega
    · have := (ht.done (by simpa using hr) hit).1
      rw [this] at ho; cases ho

/-- the queued `unsched` of a task without children removes it -/
theorem iterTask_unsched {now : Nat} {fail : Bool} {ex : Option Nat} {t : DTask} (hit : t.inTable = true)
    (hcb : t.cbUnsched = true) (hr : t.resched = false) (hd : isDue now t = true) (hn : t.nsim = 0) :
    iterTask now fail ex t = none := by
  unfold iterTask
  rw [if_pos hd]
  have hre : rearm now t = { t with active := false } := by
    unfold rearm; rw [if_neg (by simp [hr])]
  rw [hre, exitO_pending (by exact hit)]
  simp [cbTask, hit, hcb, hn]

/-- membership in the table after an iteration -/
theorem mem_iter_tasks {s : St} {now : Nat} {ko : Option Nat} (h : Inv s) {t' : DTask} :
    t' ∈ (iter s now ko).1.tasks ↔ ∃ t ∈ s.tasks, iterTask now s.spawnFail (exitSid s ko) t = some t' := by
  obtain ⟨L, _, _, _, ht, _⟩ := iter_spec s now ko h.sidU
  rw [ht, List.mem_filterMap]

/-! ### the records after a request -/

theorem mem_injectAs {s : St} {uid : String} {ms dur : Nat} {occ : List Nat} {isTask : Bool} {e : Nat} {t' : DTask}
    (h : t' ∈ (injectAs s uid ms dur occ isTask e).1.tasks) :
    t' ∈ s.tasks ∨ (s.find uid = none ∧ t' = loaded s (fresh s.nextSid uid e ms dur occ)) ∨
      ∃ old, s.find uid = some old ∧ old.owner = e ∧ t' = loaded s (replaced old e ms dur occ) := by
  unfold injectAs at h
  split at h
  · exact Or.inl h
  cases hf : s.find uid with
  | none =>
    rw [hf] at h
    simp only [List.mem_append, List.mem_singleton] at h
    rcases h with h | h
    · exact Or.inl h
    · exact Or.inr (Or.inl ⟨rfl, h⟩)
  | some old =>
    rw [hf] at h
    simp only [] at h
    split at h
    · exact Or.inl h
    · rename_i ho
      rw [mem_upd] at h
      rcases h with ⟨h, _⟩ | ⟨h, _⟩
      · exact Or.inl h
      · exact Or.inr (Or.inr ⟨old, rfl, by simpa using ho, h⟩)

theorem mem_eject {s : St} {uid : String} {u : Nat} {t' : DTask} (h : t' ∈ (eject s uid u).1.tasks) :
    t' ∈ s.tasks ∨ ∃ t, s.find uid = some t ∧ t.owner = u ∧
      t' = { t with active := false, inTable := false, resched := false } := by
  unfold eject at h
  cases hf : s.find uid with
  | none => rw [hf] at h; exact Or.inl h
  | some t =>
    rw [hf] at h
    simp only [] at h
    split at h
    · exact Or.inl h
    · rename_i ho
      split at h
      · rw [mem_upd] at h
        rcases h with ⟨h, _⟩ | ⟨h, _⟩
        · exact Or.inl h
        · exact Or.inr ⟨t, rfl, by simpa using ho, h⟩
      · rw [mem_del] at h; exact Or.inl h.1

/-! ### the concurrency limit when the limit of a uid never changes -/

/-- every `sched` instruction of the operation carries the limit `lim uid` -/
def LimOk (lim : String → Nat) : Op → Prop
  | .req _ ins => ∀ i ∈ ins, match i with
    | .sched uid _ ms _ _ _ => ms = lim uid
    | .cancel _ => True
  | _ => True

/-- limits as submitted and respected -/
def LInv (lim : String → Nat) (s : St) : Prop :=
  ∀ t ∈ s.tasks, t.maxSimul = lim t.uid ∧ (t.maxSimul < unlimited → t.nsim ≤ t.maxSimul)

theorem LInv_iter {lim : String → Nat} {s : St} {now : Nat} {ko : Option Nat} (h : Inv s) (hl : LInv lim s) :
    LInv lim (iter s now ko).1 := by
  intro t' ht'
  obtain ⟨t, ht, hit⟩ := (mem_iter_tasks h).mp ht'
  have hk := iterTask_keeps hit
  obtain ⟨l1, l2⟩ := hl t ht
  refine ⟨by rw [hk.2.2.2.2.1, hk.2.1]; exact l1, ?_⟩
  rw [hk.2.2.2.2.1]
  intro hlt
  rcases iterTask_nsim hit with hn | ⟨hn, hm⟩
  · have := l2 hlt; omega
  · rcases hm with hm | hm
    · unfold unlimited at hm hlt; omega
    · omega

theorem LInv_exit {lim : String → Nat} {s : St} {k : Nat} (h : Inv s) (hl : LInv lim s) :
    LInv lim (childExit s k).1 := by
  unfold childExit
  cases hc : s.children[k]? with
  | none => rw [exit_none s k [] (by intro c hc'; rw [hc] at hc'; cases hc')]; exact hl
  | some c =>
    by_cases hlv : c.live = true
    · obtain ⟨ht, _, _⟩ := exit_spec s k [] h.sidU c hc hlv
      intro t' ht'
      rw [ht, List.mem_filterMap] at ht'
      obtain ⟨t, htm, he⟩ := ht'
      have : exitO (some c.sid) ([].contains t.sid) t = some t' := he
      rw [exitO_some this]
      obtain ⟨l1, l2⟩ := hl t htm
      exact ⟨l1, fun hlt => by have := l2 hlt; simp only []; omega⟩
    · rw [exit_none s k [] (by intro c' hc'; rw [hc] at hc'; cases hc'; simpa using hlv)]; exact hl

theorem LInv_applyInstr {lim : String → Nat} {s : St} (peer : Nat) (i : Instr) (_h : Inv s) (hl : LInv lim s)
    (hi : match i with | .sched uid _ ms _ _ _ => ms = lim uid | .cancel _ => True) :
    LInv lim (applyInstr s peer i).1 := by
  cases i with
  | sched uid owner ms dur occ isTask =>
    simp only [applyInstr]
    rw [inject_eq]
    unfold injectSpec
    cases effOwner s owner peer with
    | none => exact hl
    | some e =>
      simp only []
      intro t' ht'
      rcases mem_injectAs ht' with h1 | ⟨_, h1⟩ | ⟨old, hf, _, h1⟩
      · exact hl t' h1
      · have hk := loaded_keeps s (fresh s.nextSid uid e ms dur occ)
        rw [h1, hk.2.2.2.2.2.1, hk.2.1, hk.2.2.2.1]
        exact ⟨hi, fun _ => Nat.zero_le _⟩
      · have hk := loaded_keeps s (replaced old e ms dur occ)
        obtain ⟨hom, _, hou⟩ := find_some hf
        obtain ⟨l1, l2⟩ := hl old hom
        rw [h1, hk.2.2.2.2.2.1, hk.2.1, hk.2.2.2.1]
        simp only [replaced]
        have hms : ms = old.maxSimul := by rw [l1, hou]; exact hi
        exact ⟨by rw [hou]; exact hi, fun hlt => by rw [hms] at hlt ⊢; exact l2 hlt⟩
  | cancel uid =>
    simp only [applyInstr]
    intro t' ht'
    rcases mem_eject ht' with h1 | ⟨t, hf, _, h1⟩
    · exact hl t' h1
    · obtain ⟨htm, _, _⟩ := find_some hf
      rw [h1]; exact hl t htm

theorem LInv_applyAll {lim : String → Nat} (peer : Nat) : ∀ (ins : List Instr) (s : St), Inv s → LInv lim s →
    (∀ i ∈ ins, instrSorted i) →
    (∀ i ∈ ins, match i with | .sched uid _ ms _ _ _ => ms = lim uid | .cancel _ => True) →
    LInv lim (applyAll s peer ins).1 := by
  intro ins
  induction ins with
  | nil => intro s _ hl _ _; exact hl
  | cons i r ih =>
    intro s h hl hs hi
    simp only [applyAll]
    exact ih _ (Inv_applyInstr h peer i (hs i List.mem_cons_self))
      (LInv_applyInstr peer i h hl (hi i List.mem_cons_self))
      (fun j hj => hs j (List.mem_cons_of_mem _ hj)) (fun j hj => hi j (List.mem_cons_of_mem _ hj))

theorem LInv_step {lim : String → Nat} {s : St} (op : Op) (h : Inv s) (hl : LInv lim s) (hop : OpOk s op)
    (hlim : LimOk lim op) : LInv lim (step s op).1 := by
  cases op with
  | tick now => exact LInv_iter (ko := none) h hl
  | req p ins =>
    simp only [step]
    rw [cmdIcal_eq]
    simp only []
    have := LInv_applyAll p ins s h hl hop hlim
    split
    · intro t ht; rw [addChkpnt_tasks] at ht; exact this t ht
    · exact this
  | exit k => exact LInv_exit h hl
  | chk => exact hl
  | tickExit now k => exact LInv_iter (ko := some k) h hl

theorem LInv_run {lim : String → Nat} : ∀ (ops : List Op) (s : St), Inv s → LInv lim s → Mono s.now ops →
    (∀ op ∈ ops, LimOk lim op) → LInv lim (run s ops).1 := by
  intro ops
  induction ops with
  | nil => intro s _ hl _ _; exact hl
  | cons op ops ih =>
    intro s h hl hm hlim
    obtain ⟨h1, h2⟩ := Mono_cons hm
    rw [run_cons]
    simp only []
    apply ih _ (Inv_step h op h1) (LInv_step op h hl h1 (hlim op List.mem_cons_self))
    · rw [step_now h op]; exact h2
    · exact fun o ho => hlim o (List.mem_cons_of_mem _ ho)

end Echse.Daemon
